#!/venv/bin/python
"""tools/keepseed.py <seed dir> <id> <property> "<what it needs to manifest>"  : copies patch.diff, demo.py, README.md + eval.json into /verif/seeded/<id>/ with meta.json"""
import sys, os, json, shutil
d, sid, prop, needs = sys.argv[1:5]
note = sys.argv[5] if len(sys.argv) > 5 else None
V = os.path.dirname(os.path.dirname(os.path.abspath(__file__)))
dst = os.path.join(V, 'seeded', sid)
os.makedirs(dst, exist_ok=True)
for f in ('patch.diff', 'demo.py', 'README.md'):
    if os.path.exists(os.path.join(d, f)):
        shutil.copy(os.path.join(d, f), os.path.join(dst, f))
ev = json.load(open(os.path.join(d, 'eval.json')))
meta = {'id': sid, 'breaks_property': prop, 'origin': 'independent sub-agent given only the property text and a scratch worktree',
        'needs_to_manifest': needs,
        'confirmed': {'demo_on_clean_tree_rc': ev.get('demo_clean_rc'), 'demo_on_patched_tree_rc': ev.get('demo_patched_rc'), 'sweep_tests_on_patched_tree': ev.get('sweep_tests'),
                      'joel_tests_on_patched_tree': ev.get('joel_tests')},
        'what_was_run': 'tools/seedeval.py: scratch git worktree of /repo under /tmp, demo on clean and patched tree, baseline sweep tests on the patched tree, then the registered checks with VERIF_REPO pointing at the patched worktree; worktree removed afterwards',
        'checks_run': {k: {'rc': v['rc'], 'keys': v['keys']} for k, v in ev.get('checks', {}).items()},
        'caught_by': ev.get('caught_by'), 'history': note}
json.dump(meta, open(os.path.join(dst, 'meta.json'), 'w'), indent=1)
print('kept', dst, 'caught_by', meta['caught_by'])
