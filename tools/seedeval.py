#!/venv/bin/python
"""tools/seedeval.py <dir> [--checks C01,C05] [--tier quick] [--fulltests]
<dir> holds patch.diff and demo.py of one seeded change.  In a scratch worktree of /repo (outside /repo and /verif, removed afterwards):
  1. demo.py on the clean tree must exit 0, on the patched tree exit 1
  2. the fast baseline tests (test_sim_sweep_parameters.py; with --fulltests also the baseline-passing tests of test_from_joel.py) must still pass
  3. the registered checks (all, or --checks) are run with VERIF_REPO pointing at the patched tree; reports which raise a VIOLATION
Prints a JSON summary (also written to <dir>/eval.json)."""
import os, sys, json, subprocess, tempfile, shutil, time

V = os.path.dirname(os.path.dirname(os.path.abspath(__file__)))
PY = '/venv/bin/python'


def sh(cmd, **kw):
    return subprocess.run(cmd, capture_output=True, text=True, **kw)


def main():
    d = os.path.abspath(sys.argv[1])
    checks = None
    tier = 'quick'
    for i, a in enumerate(sys.argv):
        if a == '--checks':
            checks = sys.argv[i + 1].split(',')
        if a == '--tier':
            tier = sys.argv[i + 1]
    wt = tempfile.mkdtemp(prefix='seedeval_', dir='/tmp')
    os.rmdir(wt)
    out = {'dir': d}
    try:
        r = sh(['git', '-C', '/repo', 'worktree', 'add', '-q', '--detach', wt, 'HEAD'])
        if r.returncode:
            out['error'] = 'worktree: ' + r.stderr
            return out
        env = dict(os.environ, MPLBACKEND='Agg', PYTHONHASHSEED='0')
        demo = os.path.join(d, 'demo.py')
        t0 = time.time()
        r = sh([PY, demo, wt], env=env, timeout=600)
        out['demo_clean_rc'] = r.returncode
        a = sh(['git', '-C', wt, 'apply', os.path.join(d, 'patch.diff')])
        if a.returncode:
            out['error'] = 'patch does not apply: ' + a.stderr[-300:]
            return out
        out['files_touched'] = sh(['git', '-C', wt, 'diff', '--stat']).stdout.strip().splitlines()[-1:]
        r = sh([PY, demo, wt], env=env, timeout=600)
        out['demo_patched_rc'] = r.returncode
        out['demo_patched_tail'] = (r.stdout + r.stderr)[-400:]
        out['demo_s'] = round(time.time() - t0, 1)
        r = sh([PY, '-m', 'pytest', '-q', '-p', 'no:cacheprovider', 'EoN/tests/test_sim_sweep_parameters.py'], cwd=wt, env=dict(env, PYTHONPATH=wt), timeout=1800)
        out['sweep_tests'] = r.stdout.strip().splitlines()[-1:] if r.stdout else r.stderr[-200:]
        if '--fulltests' in sys.argv:
            base = json.load(open('/root/.vp/BASELINE.json'))['stable_pass']
            ids = ['EoN/tests/test_from_joel.py::TestSample::' + x.split('::')[-1] for x in base if 'test_from_joel' in x]
            r = sh([PY, '-m', 'pytest', '-q', '-p', 'no:cacheprovider', '--timeout=900'] + ids, cwd=wt, env=dict(env, PYTHONPATH=wt), timeout=7200)
            out['joel_tests'] = r.stdout.strip().splitlines()[-1:]
        res = {}
        for pid in (checks or ['C%02d' % i for i in range(1, 21)]):
            e2 = dict(os.environ, VERIF_REPO=wt, VERIF_EVIDENCE_DIR=os.path.join(wt, '.evidence'), VERIF_REPLAY_DIR=os.path.join(wt, '.replays'))
            t1 = time.time()
            q = sh([os.path.join(V, 'check'), pid, '--tier', tier], env=e2)
            keys = sorted({l.split('key=')[1].split(' n=')[0] for l in q.stdout.splitlines() if l.startswith('VIOLATION') and 'key=' in l})
            res[pid] = {'rc': q.returncode, 'wall_s': round(time.time() - t1, 1), 'keys': keys[:5]}
            if q.returncode == 2:
                res[pid]['inconclusive'] = [l[:200] for l in q.stdout.splitlines() if l.startswith('INCONCLUSIVE')][:1]
        out['checks'] = res
        out['caught_by'] = [p for p, v in res.items() if v['rc'] == 1]
        return out
    finally:
        sh(['git', '-C', '/repo', 'worktree', 'remove', '--force', wt])
        shutil.rmtree(wt, ignore_errors=True)
        json.dump(out, open(os.path.join(d, 'eval.json'), 'w'), indent=1)
        print(json.dumps(out, indent=1))


if __name__ == '__main__':
    main()
