#!/venv/bin/python
"""Regenerates MANIFEST.json from the check modules present (vf/checks/cXX.py) and tools/manifest_meta.json."""
import json, os, sys
V = os.path.dirname(os.path.dirname(os.path.abspath(__file__)))
meta = json.load(open(os.path.join(V, 'tools', 'manifest_meta.json')))
props = [json.loads(l) for l in open(os.path.join(V, 'properties.jsonl'))]
checks, na = [], []
for p in props:
    pid = p['id']
    m = meta['checks'].get(pid)
    if m and os.path.exists(os.path.join(V, 'vf', 'checks', pid.lower() + '.py')):
        checks.append({
            'property_id': pid,
            'quick_cmd': './check %s --tier quick' % pid,
            'thorough_cmd': './check %s --tier thorough' % pid,
            'evidence_file': 'evidence/%s.json' % pid,
            'replay_cmd_template': './check %s --replay {path}' % pid,
            'engine': m.get('engine', 'vf'),
            'level_claimed': {'category': 'exploration', 'text': m['text'], 'design_ref': 'DESIGN.md section 4, %s' % pid},
            'level_note': m['note'],
            'technique': m['technique'],
        })
    else:
        na.append({'property_id': pid, 'reason': meta.get('na', {}).get(pid, 'check not built yet (work in progress); runtime monitoring applies, see DESIGN.md')})
man = {
    'version': 1,
    'setup_cmd': './setup.sh',
    'hooks': meta['hooks'],
    'engines': meta['engines'],
    'checks': checks,
    'notes': meta['notes'],
    'not_applicable': na,
}
json.dump(man, open(os.path.join(V, 'MANIFEST.json'), 'w'), indent=1)
print('checks:', [c['property_id'] for c in checks], 'na:', [n['property_id'] for n in na])
