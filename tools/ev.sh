#!/bin/sh
# tools/ev.sh <seed dir> <checks>
/venv/bin/python "$(dirname "$0")/seedeval.py" "$1" --checks "$2" 2>&1 | /venv/bin/python -c "
import sys,json
t=sys.stdin.read(); j=json.loads(t[t.index('{'):])
print({k:j.get(k) for k in ('demo_clean_rc','demo_patched_rc','sweep_tests','caught_by','error')}); print({k:(v['rc'],v['keys'][:3],v.get('inconclusive')) for k,v in j.get('checks',{}).items()})"
