#!/venv/bin/python
"""tools/reseed_par.py <jobs> [ids...] : like tools/reseed_all.py for the given ids, <jobs> scratch worktrees at a time; merges into seeded/REGRESSION.json."""
import os, sys, json, subprocess, time
from concurrent.futures import ThreadPoolExecutor
V = os.path.dirname(os.path.dirname(os.path.abspath(__file__)))
jobs = int(sys.argv[1])
ids = sys.argv[2:] or sorted(d for d in os.listdir(os.path.join(V, 'seeded')) if os.path.isdir(os.path.join(V, 'seeded', d)))


def one(sid):
    d = os.path.join(V, 'seeded', sid)
    prop = json.load(open(os.path.join(d, 'meta.json')))['breaks_property']
    t0 = time.time()
    subprocess.run(['/venv/bin/python', os.path.join(V, 'tools', 'seedeval.py'), d, '--checks', prop], capture_output=True, text=True)
    try:
        ev = json.load(open(os.path.join(d, 'eval.json')))
        os.remove(os.path.join(d, 'eval.json'))
    except Exception as e:
        ev = {'error': repr(e)}
    rec = {'property': prop, 'caught': prop in (ev.get('caught_by') or []) and ev.get('demo_patched_rc') == 1 and ev.get('demo_clean_rc') == 0,
           'demo_clean_rc': ev.get('demo_clean_rc'), 'demo_patched_rc': ev.get('demo_patched_rc'),
           'keys': (ev.get('checks') or {}).get(prop, {}).get('keys'), 'error': ev.get('error'), 'wall_s': round(time.time() - t0, 1)}
    print(sid, 'OK' if rec['caught'] else 'NOT-CAUGHT', rec, flush=True)
    return sid, rec


with ThreadPoolExecutor(jobs) as ex:
    out = dict(ex.map(one, ids))
p = os.path.join(V, 'seeded', 'REGRESSION.json')
try:
    merged = dict(json.load(open(p)).get('results', {}))
except Exception:
    merged = {}
merged.update(out)
bad = sorted(k for k, v in merged.items() if not v.get('caught'))
sh = lambda *a: subprocess.run(a, capture_output=True, text=True).stdout.strip()
json.dump({'repo_head': sh('git', '-C', '/repo', 'rev-parse', '--short', 'HEAD'), 'verif_head': sh('git', '-C', V, 'rev-parse', '--short', 'HEAD'),
           'results': merged, 'not_caught': bad}, open(p, 'w'), indent=1)
print('finished', len(out), 'run; not caught:', bad)
sys.exit(1 if bad else 0)
