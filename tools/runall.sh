#!/bin/sh
# runs every check of one tier for the given seeds; prints one summary line per run
cd "$(dirname "$0")/.."
TIER=${1:-quick}; shift
SEEDS=${*:-0}
for s in $SEEDS; do
  for n in 01 02 03 04 05 06 07 08 09 10 11 12 13 14 15 16 17 18 19 20; do
    t0=$(date +%s)
    out=$(VERIF_SEED=$s ./check C$n --tier $TIER 2>&1); rc=$?
    t1=$(date +%s)
    echo "C$n seed=$s tier=$TIER rc=$rc wall=$((t1-t0))s $(echo "$out" | grep -c '^VIOLATION') violations $(echo "$out" | grep -E '^(INCONCLUSIVE|KNOWN)' | head -2 | cut -c1-200)"
    if [ $rc -ne 0 ]; then echo "$out" | grep -E '^(VIOLATION|INCONCLUSIVE)' | head -5 | cut -c1-400; fi
  done
done
