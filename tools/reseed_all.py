#!/venv/bin/python
"""tools/reseed_all.py [ids...] : regression over the kept seeded changes (/verif/seeded/<id>/): each is applied in a scratch worktree of
/repo (tools/seedeval.py), its demo must still fail there, and the quick check of the property it breaks must report a VIOLATION.
Writes seeded/REGRESSION.json; exits 1 if any kept change is no longer caught."""
import os, sys, json, subprocess, time
V = os.path.dirname(os.path.dirname(os.path.abspath(__file__)))
ids = sys.argv[1:] or sorted(d for d in os.listdir(os.path.join(V, 'seeded')) if os.path.isdir(os.path.join(V, 'seeded', d)))
out = {}
bad = []
for sid in ids:
    d = os.path.join(V, 'seeded', sid)
    meta = json.load(open(os.path.join(d, 'meta.json')))
    prop = meta['breaks_property']
    t0 = time.time()
    r = subprocess.run(['/venv/bin/python', os.path.join(V, 'tools', 'seedeval.py'), d, '--checks', prop], capture_output=True, text=True)
    try:
        ev = json.load(open(os.path.join(d, 'eval.json')))
    except Exception as e:
        ev = {'error': repr(e)}
    ok = prop in (ev.get('caught_by') or []) and ev.get('demo_patched_rc') == 1 and ev.get('demo_clean_rc') == 0
    out[sid] = {'property': prop, 'caught': prop in (ev.get('caught_by') or []), 'demo_clean_rc': ev.get('demo_clean_rc'), 'demo_patched_rc': ev.get('demo_patched_rc'),
                'keys': (ev.get('checks') or {}).get(prop, {}).get('keys'), 'error': ev.get('error'), 'wall_s': round(time.time() - t0, 1)}
    print(sid, 'OK' if ok else 'NOT-CAUGHT', out[sid], flush=True)
    if not ok:
        bad.append(sid)
    if os.path.exists(os.path.join(d, 'eval.json')):
        os.remove(os.path.join(d, 'eval.json'))
if sys.argv[1:]:
    # partial run: merge into the existing record
    try:
        old = json.load(open(os.path.join(V, 'seeded', 'REGRESSION.json')))
        merged = dict(old.get('results', {}))
        merged.update(out)
        out = merged
        bad = sorted(k for k, v in out.items() if not v.get('caught'))
    except Exception:
        pass
json.dump({'repo_head': subprocess.run(['git', '-C', '/repo', 'rev-parse', '--short', 'HEAD'], capture_output=True, text=True).stdout.strip(),
           'verif_head': subprocess.run(['git', '-C', V, 'rev-parse', '--short', 'HEAD'], capture_output=True, text=True).stdout.strip(),
           'results': out, 'not_caught': bad}, open(os.path.join(V, 'seeded', 'REGRESSION.json'), 'w'), indent=1)
print('kept changes: %d, caught by their own property check: %d, not caught: %s' % (len(ids), len(ids) - len(bad), bad))
sys.exit(1 if bad else 0)
