"""Shared implementation of C01 (SIR) and C02 (SIS): Markovian simulators sample the exact network chain.

kinds of case
  e2    one random run of Gillespie_SIR under the recording RNG proxy; every step law-checked (E2)
  e3    state steering (E3): the RNG is driven so that the real Gillespie_SIR visits every reachable state of a small graph
  fast  one run of fast_SIR: draw parameters vs chain + first-passage consistency of the output with its own draws
  e6    end-to-end distribution of final state / state at T vs the master equation (chi-square, alpha 1e-9 + confirmation)
"""
import random, math, itertools
import numpy as np
from . import gen, rngprobe, markov, simcase, stats
from .runner import new_result, viol, bump, setmax, addset, case_seed
from .oracles import ctmc

LEVEL = 'exploration'
RULE = ('e2/fast: random graphs n<=12 x weight modes {none,edge,node,both} x rate grid incl. 0 x initial sets (SIR: with initially '
        'recovered nodes) x tmin/tmax; e3: every graph of the atlas up to the node bound x every non-empty initial infected set '
        '(SIR: x every disjoint recovered set), all four weight modes, RNG decisions enumerated until every reachable state has been '
        'expanded; e6: chi-square vs master equation on graphs n<=5.  Non-trivial = at least one event happened; distinct = '
        '(kind, isomorphism key of graph, weight mode, rate class, |I0|, |R0|).')
ASSUMPTIONS = ['binomial/sample/truncated-exponential shortcut of fast_SIR is equivalent in law to independent Exp(tau) delays '
               'thresholded at the infectious duration; lazy next-transmission scheduling of fast_SIS is exact by memorylessness '
               '(mathematical facts, not monitored)',
               'random.Random / numpy RandomState produce the distributions they document',
               'statistical sub-checks: false-alarm budget 1e-9 per run with confirmation stage; finite power']
BUDGET = {'quick': 170, 'thorough': 1700}
CHUNK = {'quick': 6, 'thorough': 12}
CASE_TIMEOUT = 300


class MarkovCheck(object):
    def __init__(self, pid, model):
        self.PID, self.MODEL = pid, model
        self.GILL, self.FAST = 'Gillespie_' + model, 'fast_' + model

    def _rate_class(self, tau, gamma):
        return ('t0' if tau == 0 else 't+') + ('g0' if gamma == 0 else 'g+')


    def gen_cases(self, tier, seed):
        cases = []
        q = tier == 'quick'
        # --- e2 and fast: random
        n_rand = 1500 if q else 100000
        for k in range(n_rand):
            cs = case_seed(seed, self.PID, k)
            r = random.Random(cs)
            desc = gen.random_graph(r, 1, 12)
            desc['labels'] = r.choice(gen.LABEL_SCHEMES)
            if r.random() < 0.5:
                desc = gen.shuffle_desc(r, desc)        # node / edge insertion order unrelated to the labels
            c = simcase.make_markov_case(r, desc, with_R0=(self.MODEL == 'SIR'))
            if r.random() < 0.2:
                c['tau'], c['gamma'] = int(round(c['tau'])), int(round(c['gamma']))     # integer rates (incl. 0)
            if self.MODEL == 'SIR':
                c['tmax'] = r.choice(['inf', 'inf', c['tmin'] + 1.0, c['tmin'] + 0.2, c['tmin'] + 4])
            else:
                c['tmax'] = r.choice([c['tmin'] + 1.0, c['tmin'] + 0.2, c['tmin'] + 3, c['tmin'] + 6])
            if c['tmin'] < 0 and r.random() < 0.3:
                c['tmax'] = r.choice([0, 0.0])        # horizon exactly zero (falsy) after a negative start
            c['kind'] = 'e2' if k % 2 == 0 else 'fast'
            c['seed'] = cs
            if r.random() < 0.2 and c['tmin'] == 0:
                # the law is scale-free: the same epidemic in a time unit 1e10 (1e14, 1e30) times smaller / 1e8 times larger
                # (from tmin = 0 only: event times of order 1e-9 added to a start time of order 1 would tie in floating point)
                sc = r.choice([1e-10, 1e8, 1e-14, 1e-30])
                c['tau'], c['gamma'] = c['tau'] * sc, c['gamma'] * sc
                if c['tmax'] != 'inf' and c['tmax'] != 0:
                    c['tmax'] = c['tmin'] + (c['tmax'] - c['tmin']) / sc
                c['rate_scale'] = sc
            elif r.random() < 0.2 and c.get('wm', 'none') != 'none':
                # the same process written in other units: weights of order 1e-12 (or 1e11) with tau / gamma scaled the other way
                g = dict(c['graph'])
                if g.get('ew'):
                    f = r.choice([1e-13, 1e-12, 1e11])
                    g['ew'] = {a: [w * f for w in ws] for a, ws in g['ew'].items()}
                    c['tau'] = c['tau'] / f
                if g.get('nw'):
                    f = r.choice([1e-13, 1e-12, 1e11])
                    g['nw'] = {a: [w * f for w in ws] for a, ws in g['nw'].items()}
                    c['gamma'] = c['gamma'] / f
                c['graph'] = g
                c['weight_units_scaled'] = True
            cases.append(c)
        # --- e3: exhaustive small graphs
        nmax = 4 if q else 5
        rates = [(1.0, 1.0), (0.7, 1.9), (0.0, 1.0), (1.0, 0.0), (2.5, 0.3)]
        k = 0
        for desc in gen.atlas(nmax):
            n = desc['n']
            for assign in itertools.product('SIR' if self.MODEL == 'SIR' else 'SI', repeat=n):
                if 'I' not in assign:
                    continue
                if not q and n == 5 and assign.count('R') > 1:
                    continue    # n=5: recovered sets of size <=1 (the others are reachable states of those anyway)
                for wm in ('none', 'edge', 'node', 'both'):
                    k += 1
                    cs = case_seed(seed, self.PID + 'e3', k)
                    r = random.Random(cs)
                    d = dict(desc)
                    m = len(d['edges'])
                    if wm in ('edge', 'both'):
                        d['ew'] = {simcase.TW: gen.weights(r, m, r.choice(['dyadic', 'nondyadic', 'wide']))}
                    if wm in ('node', 'both'):
                        d['nw'] = {simcase.RW: gen.weights(r, n, r.choice(['dyadic', 'nondyadic', 'wide']))}
                    tau, gamma = rates[(k + seed) % len(rates)]
                    cases.append({'kind': 'e3', 'graph': d, 'wm': wm, 'tau': tau, 'gamma': gamma,
                                  'I0': [i for i in range(n) if assign[i] == 'I'], 'R0': [i for i in range(n) if assign[i] == 'R'],
                                  'tmin': 0, 'tmax': 'inf', 'seed': cs})
        # --- e6
        runs = 20000 if q else 500000
        n_cfg = 10 if q else 24
        small = [g for g in gen.atlas(5, 2) if len(g['edges']) >= 1]
        for k in range(n_cfg):
            cs = case_seed(seed, self.PID + 'e6', k)
            r = random.Random(cs)
            desc = dict(r.choice(small))
            c = simcase.make_markov_case(r, desc, rates=r.choice([(1.0, 1.0), (2.5, 0.6), (0.6, 1.5), (3.0, 1.0)]), tmins=(0, 1.5), with_R0=(self.MODEL == 'SIR'))
            if k % 3 == 1:
                # self-loops (left by nx.Graph(nx.configuration_model(...))): a node does not infect itself, so the law is that of the
                # network without them
                c['selfloops'] = sorted(r.sample(range(desc['n']), r.randint(1, min(2, desc['n']))))
            for sim in (self.GILL, self.FAST):
                for mode in (('final', 'stateT') if self.MODEL == 'SIR' else ('stateT', 'stateT2')):
                    cc = dict(c)
                    cc.update({'kind': 'e6', 'sim': sim, 'mode': mode, 'T': r.choice([0.4, 0.8, 1.5]) * (2 if mode == 'stateT2' else 1), 'runs': runs,
                               'full': (k % 2 == 0), 'seed': cs + (1 if sim == self.FAST else 0), 'ntests': n_cfg * 4})
                    cases.append(cc)
        # --- step law on a few larger weighted networks: more than a thousand insertions into one candidate list within a single call
        for j in range(4 if q else 24):
            cs = case_seed(seed, self.PID + 'e2big', j)
            r = random.Random(cs)
            nb = r.randint(260, 380)
            rr = random.Random(cs + 1)
            es = set()
            for a_ in range(nb):
                es.add((min(a_, (a_ + 1) % nb), max(a_, (a_ + 1) % nb)))
                for _ in range(r.choice([5, 7])):
                    b_ = rr.randrange(nb)
                    if a_ != b_:
                        es.add((min(a_, b_), max(a_, b_)))
            desc = {'n': nb, 'edges': sorted([list(e) for e in es]), 'kind': 'dense_ring', 'decoy': False}
            desc['labels'] = r.choice(['int', 'offset', 'str'])
            c = simcase.make_markov_case(r, desc, weight_mode='both', rates=r.choice([(2.0, 1.0), (1.5, 0.5)]), with_R0=False, tmins=(0,))
            g = c['graph']
            g['ew'] = {a: [r.choice([0.5, 1.0, 1.5, 2.0]) for _ in ws] for a, ws in g['ew'].items()}
            g['nw'] = {a: [r.choice([0.5, 1.0, 2.0]) for _ in ws] for a, ws in g['nw'].items()}
            c['I0'] = sorted(r.sample(range(desc['n']), 5))
            c.update({'kind': 'e2', 'seed': cs, 'tmax': 'inf' if self.MODEL == 'SIR' else 4.0, 'big_e2': True})
            cases.append(c)
        # --- endure: weighted selections that see K consecutive rejections
        for j in range(10 if q else 40):
            cs = case_seed(seed, self.PID + 'endure', j)
            r = random.Random(cs)
            desc = gen.random_graph(r, 5, 10, kinds=['gnp', 'cycle', 'star', 'tree', 'regular'])
            desc['labels'] = r.choice(gen.LABEL_SCHEMES)
            c = simcase.make_markov_case(r, desc, weight_mode=r.choice(['edge', 'both']), rates=r.choice([(1.0, 1.0), (2.0, 0.5)]), with_R0=False, tmins=(0, -2))
            g = c['graph']
            g['ew'] = {a: [r.choice([0.1, 0.2, 0.3, 0.7, 1.1, 1.3, 2.3]) for _ in ws] for a, ws in g['ew'].items()}
            if g.get('nw'):
                g['nw'] = {a: [r.choice([0.2, 0.5, 1.0, 1.7]) for _ in ws] for a, ws in g['nw'].items()}
            c['I0'] = sorted(r.sample(range(desc['n']), min(desc['n'], 3)))
            c.update({'kind': 'endure', 'seed': cs, 'K': r.choice([150, 1500, 15000] if q else [150, 1500, 15000, 120000]), 'tmax': 'inf' if self.MODEL == 'SIR' else c['tmin'] + 3.0})
            cases.append(c)
        # --- rescale: black-box time-rescaling / event-type martingale tests on larger random graphs (both simulators)
        nres = 24 if q else 96
        for k in range(nres):
            cs = case_seed(seed, self.PID + 'rescale', k)
            r = random.Random(cs)
            desc = gen.random_graph(r, 10, 30, kinds=['gnp', 'gnp_sparse', 'regular', 'config', 'tree', 'grid'])
            desc['labels'] = r.choice(gen.LABEL_SCHEMES)
            c = simcase.make_markov_case(r, desc, rates=r.choice([(1.0, 1.0), (0.5, 1.0), (2.0, 0.7), (0.8, 0.2)]), with_R0=(self.MODEL == 'SIR'), tmins=(0, -3))
            g = c['graph']
            for kk in ('ew', 'nw'):      # positive weights only: zero-rate classes are covered by e2/e3
                if g.get(kk):
                    g[kk] = {a: [w if w > 0 else 0.7 for w in ws] for a, ws in g[kk].items()}
            fam = k % 8
            if fam in (4, 5, 6):
                # hubs and very uneven weights: a hub that infects dozens of neighbours during one infectious period, one contact / node
                # hundreds of times heavier than the others (weighted selection then needs hundreds of proposals)
                L = r.choice([24, 60, 150] if q else [24, 60, 150, 300])
                g = {'n': L + 2, 'edges': [[0, i] for i in range(1, L + 2)], 'labels': g['labels'], 'decoy': g.get('decoy', False), 'kind': 'hubstar'}
                for _ in range(r.randint(0, 4)):
                    a, b = r.sample(range(1, L + 2), 2)
                    if [min(a, b), max(a, b)] not in g['edges']:
                        g['edges'].append([min(a, b), max(a, b)])
                m_ = len(g['edges'])
                if fam == 4:
                    c['wm'] = r.choice(['none', 'node'])          # unweighted contacts: fast_SIR's constant-rate path with a hub
                    if c['wm'] == 'node':
                        g['nw'] = {simcase.RW: [r.choice([0.5, 1.0, 2.0]) for _ in range(L + 2)]}
                    c['tau'], c['gamma'] = r.choice([(0.5, 1.0), (2.0, 0.7), (0.3, 0.5)])
                else:
                    heavy = float(r.choice([100, 300]))
                    ew = [1.0] * m_
                    ew[r.randrange(L + 1)] = heavy
                    g['ew'] = {simcase.TW: ew}
                    c['wm'] = 'edge'
                    if fam == 6:
                        nw = [1.0] * (L + 2)
                        nw[r.randrange(1, L + 2)] = heavy
                        g['nw'] = {simcase.RW: nw}
                        c['wm'] = 'both'
                    c['tau'], c['gamma'] = r.choice([(3.0 / heavy, 1.0), (6.0 / heavy, 0.5)])
                c['graph'] = g
                c['I0'], c['R0'] = [0], ([r.randrange(1, L + 2)] if (self.MODEL == 'SIR' and r.random() < 0.3) else [])
            elif fam == 3:
                # one long run: thousands of events through the same candidate lists within a single call (SIS: a small dense graph for
                # a long time; SIR: a network of ~1500 nodes), with node and edge weights
                if self.MODEL == 'SIS':
                    L = r.randint(5, 8)
                    g = {'n': L, 'edges': [[a, b] for a in range(L) for b in range(a + 1, L)], 'labels': g['labels'], 'decoy': g.get('decoy', False), 'kind': 'long'}
                    c['tau'], c['gamma'] = r.choice([(1.5, 1.0), (2.5, 1.0)])
                    c['I0'], c['R0'] = list(range(L)), []
                    c['long_span'] = 400.0 if q else 1500.0
                    c['force_gill'] = (k // 8) % 3 != 2
                else:
                    L = r.choice([1200, 1800])
                    rr = random.Random(cs + 1)
                    es = set()
                    for a in range(L):
                        es.add((a, (a + 1) % L) if a + 1 < L else (0, a))
                        b = rr.randrange(L)
                        if b != a:
                            es.add((min(a, b), max(a, b)))
                    g = {'n': L, 'edges': sorted([list(e) for e in es]), 'labels': r.choice(['int', 'offset', 'str']), 'kind': 'long'}
                    c['tau'], c['gamma'] = r.choice([(2.0, 1.0), (1.0, 0.5)])
                    c['I0'], c['R0'] = sorted(rr.sample(range(L), 5)), []
                g['ew'] = {simcase.TW: [r.choice([0.8, 1.0, 1.2, 2.0]) for _ in g['edges']]}
                g['nw'] = {simcase.RW: [r.choice([0.8, 1.0, 1.2]) for _ in range(g['n'])]}
                c['wm'] = 'both'
                c['graph'] = g
                c['runs_override'] = 6 if q else 40
            elif fam == 7:
                # bridge: the only infectious-susceptible contact is a very heavy one; once it has fired the candidate list is empty and
                # is refilled with light contacts (a stale rejection bound would make every later selection very long)
                L = r.randint(6, 14)
                g = {'n': L + 2, 'edges': [[0, 1]] + [[1, i] for i in range(2, L + 2)], 'labels': g['labels'], 'decoy': g.get('decoy', False), 'kind': 'bridge'}
                g['ew'] = {simcase.TW: [1000.0] + [r.choice([0.5, 1.0, 2.0]) for _ in range(L)]}
                c['wm'] = 'edge'
                c['graph'] = g
                c['tau'], c['gamma'] = 1.0, r.choice([0.3, 1.0])
                c['I0'], c['R0'] = [0], []
            c.update({'kind': 'rescale', 'sim': self.GILL if c.pop('force_gill', False) else (self.GILL, self.FAST)[(k // 8 + k) % 2], 'runs': c.pop('runs_override', 150 if q else 2500), 'seed': cs, 'ntests': 4 * nres,
                      'tmax': 'inf' if self.MODEL == 'SIR' else c['tmin'] + (c.pop('long_span', None) or r.choice([1.5, 3.0]))})
            cases.append(c)
        return cases


    def _tmax(self, case):
        return float('inf') if case['tmax'] == 'inf' else float(case['tmax'])


    def _distinct(self, case, kind):
        return '%s:%s:%s:%s:%d:%d' % (kind, gen.iso_key(case['graph']), case['wm'], self._rate_class(case['tau'], case['gamma']),
                                      len(case['I0']), len(case.get('R0', [])))


    def _call(self, simname, G, case, tw, rw, I0, R0, full=True):
        import EoN
        f = getattr(EoN, simname)
        kw = dict(initial_infecteds=list(I0), tmin=case['tmin'], tmax=self._tmax(case), transmission_weight=tw, recovery_weight=rw,
                  return_full_data=full)
        if self.MODEL == 'SIR':
            kw['initial_recovereds'] = list(R0)
        return f(G, case['tau'], case['gamma'], **kw)


    def _initial_rate_zero(self, G, case, tw, rw, I0, R0):
        nodes = list(G.nodes())
        st = {u: 'S' for u in nodes}
        for u in I0:
            st[u] = 'I'
        for u in R0:
            st[u] = 'R'
        ew = (lambda u, v: G.adj[u][v][tw]) if tw else (lambda u, v: 1.0)
        nw = (lambda u: G.nodes[u][rw]) if rw else (lambda u: 1.0)
        rec, tr = ctmc.sir_sis_law(nodes, {u: list(G.neighbors(u)) for u in nodes}, st, case['tau'], case['gamma'], ew, nw)
        return sum(rec.values()) + sum(tr.values()) == 0


    def run_e2(self, case, res, simname=None):
        simname = simname or self.GILL
        G, lab, tw, rw, I0, R0 = simcase.build(case)
        wm = case['wm']
        fails, counters = [], {}
        try:
            with rngprobe.monitor(seed=case['seed']) as px:
                sim = self._call(simname, G, case, tw, rw, I0, R0)
        except Exception as e:
            cls = 'zero_initial_rate' if self._initial_rate_zero(G, case, tw, rw, I0, R0) else ('tmax_inf' if self._tmax(case) == float('inf') else 'tmax_finite')
            viol(res, '%s|%s|%s|exception:%s' % (simname, wm if cls != 'zero_initial_rate' else 'any', cls, simcase.exc_key(e)),
                 {'err': repr(e), 'tau': case['tau'], 'gamma': case['gamma']})
            return
        try:
            nsteps = markov.e2_gillespie(self.MODEL, G, case['tau'], case['gamma'], tw, rw, I0, R0, case['tmin'], self._tmax(case), px.log, sim, fails, counters)
        except markov.ParseError as e:
            res['inconclusive'] = 'draw protocol of %s not recognised: %s' % (simname, e)
            return
        for k, v in counters.items():
            bump(res, k, v)
        if case.get('big_e2'):
            bump(res, 'e2_runs_on_networks_of_hundreds_of_nodes')
            setmax(res, 'e2_max_steps_in_one_call', nsteps or 0)
        if px.n_opaque:
            bump(res, 'opaque_probe_uses', px.n_opaque)
        if case.get('weight_units_scaled') and nsteps:
            bump(res, 'e2_runs_with_weights_in_other_units')
        for pred, det in fails:
            viol(res, '%s|%s|%s' % (simname, wm, pred), det)
        if nsteps:
            res['nontrivial'] = self._distinct(case, 'e2')
            res['sample'] = {'kind': 'e2', 'graph': case['graph'], 'tau': case['tau'], 'gamma': case['gamma'], 'I0': case['I0'],
                             'R0': case.get('R0'), 'steps': nsteps, 'first_log_entries': [list(map(str, e)) for e in px.log[:6]]}


    def run_endure(self, case, res):
        """a weighted Gillespie run in which one selection sees K consecutive rejections (a path of positive probability whenever the
        live weights differ) before a candidate is accepted; the step-law monitor then judges the whole run"""
        from .checks.c18 import Tripwires
        simname = self.GILL
        G, lab, tw, rw, I0, R0 = simcase.build(case)
        wm = case['wm']
        d = rngprobe.RejectDriver(case['K'], abort_after=None)
        fails, counters = [], {}
        npcalls = [0]
        saved_np = {}
        for nm in ('random', 'random_sample', 'rand', 'uniform', 'choice', 'exponential', 'randint', 'multinomial', 'permutation', 'shuffle'):
            f0 = getattr(np.random, nm)
            saved_np[nm] = f0

            def w(*a, _f=f0, **k):
                npcalls[0] += 1
                return _f(*a, **k)
            setattr(np.random, nm, w)
        try:
            with rngprobe.monitor(driver=d) as px:
                px.min_prob = 0.0
                with Tripwires() as tw_:
                    sim = self._call(simname, G, case, tw, rw, I0, R0)
        except rngprobe.DepthExceeded:
            bump(res, 'endurance_runs_too_long')
            return
        except Exception as e:
            viol(res, '%s|%s|endure|exception:%s' % (simname, wm, simcase.exc_key(e)), {'err': repr(e)})
            return
        finally:
            for nm, f0 in saved_np.items():
                setattr(np.random, nm, f0)
        bump(res, 'endurance_runs')
        if d.rejections < case['K']:
            bump(res, 'endurance_runs_without_rejectable_candidate')
            return
        try:
            markov.e2_gillespie(self.MODEL, G, case['tau'], case['gamma'], tw, rw, I0, R0, case['tmin'], self._tmax(case), px.log, sim, fails, counters)
        except markov.SelectionAbandoned as e:
            if tw_.hits or npcalls[0]:
                bump(res, 'alternative_sampling_path_seen')
                return
            viol(res, '%s|%s|selection_abandoned_without_accepting_a_candidate' % (simname, wm), {'consecutive_rejections_before_giving_up': len(e.props), 'K_driven': case['K']})
            return
        except markov.ParseError as e:
            res['inconclusive'] = 'draw protocol of %s not recognised: %s' % (simname, e)
            return
        for pred, det in fails[:2]:
            viol(res, '%s|%s|endure|%s' % (simname, wm, pred), det)
        bump(res, 'endurance_runs_completed')
        res['nontrivial'] = self._distinct(case, 'endure:%d' % case['K'])
        res['sample'] = {'kind': 'endure', 'graph': case['graph'], 'consecutive_rejections': case['K'], 'tau': case['tau'], 'gamma': case['gamma']}

    def run_e3(self, case, res, simname=None):
        simname = simname or self.GILL
        G, lab, tw, rw, I0, R0 = simcase.build(case)
        wm = case['wm']
        if self._initial_rate_zero(G, case, tw, rw, I0, R0):
            # the chain is absorbed at once; the real function must return the single start row
            try:
                with rngprobe.monitor(seed=1) as px:
                    sim = self._call(simname, G, case, tw, rw, I0, R0)
                bump(res, 'e3_absorbed_starts_ok')
            except Exception as e:
                viol(res, '%s|any|zero_initial_rate|exception:%s' % (simname, simcase.exc_key(e)), {'err': repr(e), 'tau': case['tau'], 'gamma': case['gamma']})
            return
        visited = set()
        allfails = []
        ctr = {}
        nruns = [0]

        def run(d):
            with rngprobe.monitor(driver=d) as px:
                sim = self._call(simname, G, case, tw, rw, I0, R0)
            annot = {}
            fails = []
            markov.e2_gillespie(self.MODEL, G, case['tau'], case['gamma'], tw, rw, I0, R0, case['tmin'], self._tmax(case), px.log, sim, fails, ctr, annot, visited)
            allfails.extend(fails)
            nruns[0] += 1
            return annot

        def key(annot, d, i):
            return annot.get(d.decisions[i]['info']['logpos'], ('unannotated',))

        try:
            for script, d, out in rngprobe.explore(run, key, max_runs=200000, expo_value=0.25):
                if allfails:
                    break
        except markov.ParseError as e:
            res['inconclusive'] = 'draw protocol of %s not recognised: %s' % (simname, e)
            return
        except rngprobe.DepthExceeded as e:
            res['inconclusive'] = 'explorer bound hit: %r' % (e,)
            return
        except Exception as e:
            viol(res, '%s|%s|steered|exception:%s' % (simname, wm, simcase.exc_key(e)), {'err': repr(e), 'tau': case['tau'], 'gamma': case['gamma']})
            return
        for k, v in ctr.items():
            bump(res, k, v)
        for pred, det in allfails[:3]:
            viol(res, '%s|%s|%s' % (simname, wm, pred), det)
        if allfails:
            return
        # coverage: every reachable non-absorbing state of the oracle chain must have been visited
        ew, nw = simcase.index_weights(case)
        n = case['graph']['n']
        s0 = ['S'] * n
        for i in case['I0']:
            s0[i] = 'I'
        for i in case['R0']:
            s0[i] = 'R'
        reach = ctmc.reachable_states(n, [tuple(e) for e in case['graph']['edges']], case['tau'], case['gamma'], ew, nw, self.MODEL, s0)
        # visited keys are in G.nodes() order == index order (labels int, default node order)
        live = set()
        for s in reach:
            rate = 0.0
            for u in range(n):
                if s[u] == 'I':
                    rate += case['gamma'] * nw[u]
                    for (a, b), w in ew.items():
                        if a == u and s[b] == 'S':
                            rate += case['tau'] * w
            if rate > 0:
                live.add(s)
        bump(res, 'e3_states_expanded', len(visited))
        bump(res, 'e3_states_reachable', len(live))
        bump(res, 'e3_runs', nruns[0])
        if visited != live:
            viol(res, '%s|%s|state_coverage' % (simname, wm), {'visited_not_reachable': sorted(visited - live)[:3], 'reachable_not_visited': sorted(live - visited)[:3]})
        res['nontrivial'] = self._distinct(case, 'e3')
        res['sample'] = {'kind': 'e3', 'graph': case['graph'], 'I0': case['I0'], 'R0': case['R0'], 'tau': case['tau'], 'gamma': case['gamma'],
                         'states_expanded': len(visited), 'scripted_runs': nruns[0]}


    def run_fast(self, case, res):
        G, lab, tw, rw, I0, R0 = simcase.build(case)
        wm = case['wm']
        fails, counters = [], {}
        import EoN.simulation as simmod
        saved_q = simmod.myQueue
        try:
            with rngprobe.monitor(seed=case['seed']) as px:
                if self.MODEL == 'SIS':
                    simmod.myQueue = markov.make_logging_queue(saved_q, px.log)
                try:
                    sim = self._call(self.FAST, G, case, tw, rw, I0, R0)
                finally:
                    simmod.myQueue = saved_q
        except Exception as e:
            zero_w = rw is not None and any(G.nodes[u][rw] == 0 for u in G)
            viol(res, '%s|%s|%s|exception:%s' % (self.FAST, wm, 'zero_node_weight' if zero_w else 'run', simcase.exc_key(e)), {'err': repr(e)})
            return
        nev = None
        try:
            if self.MODEL == 'SIR':
                markov.e2_fast_sir(G, case['tau'], case['gamma'], tw, rw, I0, R0, case['tmin'], self._tmax(case), px.log, sim, fails, counters)
            else:
                nev = markov.e2_fast_sis(G, case['tau'], case['gamma'], tw, rw, I0, case['tmin'], self._tmax(case), px.log, sim, fails, counters)
        except markov.ParseError as e:
            bump(res, 'fast_protocol_unrecognised')
            res['sample'] = {'kind': 'fast', 'protocol_unrecognised': str(e)}
            return
        for k, v in counters.items():
            bump(res, k, v)
        for pred, det in fails:
            viol(res, '%s|%s|%s' % (self.FAST, wm, pred), det)
        if len(sim.transmissions()) > len(I0) or any(len(sim.node_history(u)[0]) > 1 for u in I0):
            res['nontrivial'] = self._distinct(case, 'fast')
            res['sample'] = {'kind': 'fast', 'graph': case['graph'], 'tau': case['tau'], 'gamma': case['gamma'], 'I0': case['I0'],
                             'infections': len(sim.transmissions()), 'draws_and_queue_events': len(px.log)}

    def _observe(self, case, G, lab, tw, rw, I0, R0, runs, seed, n):
        import EoN
        f = getattr(EoN, case['sim'])
        obs = {}
        simcase.seed_all(seed)
        nodes = [lab(i) for i in range(n)]
        T = case['tmin'] + case['T']
        final = case['mode'] == 'final'
        kw = dict(initial_infecteds=list(I0), tmin=case['tmin'], transmission_weight=tw, recovery_weight=rw)
        if self.MODEL == 'SIR':
            kw['initial_recovereds'] = list(R0)
            kw['tmax'] = float('inf') if final else T + 1.0
        else:
            kw['tmax'] = T + 1.0
        for _ in range(runs):
            if case['full']:
                sim = f(G, case['tau'], case['gamma'], return_full_data=True, **kw)
                if final:
                    st = tuple(sim.node_history(u)[1][-1] for u in nodes)
                else:
                    d = sim.get_statuses(nodes, T)
                    st = tuple(d[u] for u in nodes)
            else:
                out = f(G, case['tau'], case['gamma'], **kw)
                t = out[0]
                k = len(t) - 1 if final else int(np.searchsorted(t, T, side='right')) - 1
                st = tuple(int(a[k]) for a in out[1:])
            obs[st] = obs.get(st, 0) + 1
        return obs


    def run_e6(self, case, res):
        G, lab, tw, rw, I0, R0 = simcase.build(case)
        for i in case.get('selfloops') or []:
            G.add_edge(lab(i), lab(i))
            if tw:
                G.edges[lab(i), lab(i)][tw] = 1.0
        if case.get('selfloops'):
            bump(res, 'e6_tests_on_networks_with_self_loops')
        n = case['graph']['n']
        ew, nw = simcase.index_weights(case)
        states, index, Q = ctmc.build_chain(n, [tuple(e) for e in case['graph']['edges']], case['tau'], case['gamma'], ew, nw, self.MODEL)
        s0 = ['S'] * n
        for i in case['I0']:
            s0[i] = 'I'
        for i in case.get('R0', []):
            s0[i] = 'R'
        s0 = tuple(s0)
        if case['mode'] == 'final':
            law = ctmc.absorbing_law(states, index, Q, s0)
        else:
            law = ctmc.state_at_T(states, index, Q, s0, case['T'])
        if not case['full']:
            letters = 'SIR' if self.MODEL == 'SIR' else 'SI'
            agg = {}
            for s, p in law.items():
                c = tuple(s.count(x) for x in letters)
                agg[c] = agg.get(c, 0.0) + p
            law = agg
        alpha = stats.ALPHA_RUN / max(1, case['ntests'])
        key = '%s|%s|%s_distribution' % (case['sim'], case['wm'], case['mode'])
        try:
            obs = self._observe(case, G, lab, tw, rw, I0, R0, case['runs'], case['seed'], n)
        except Exception as e:
            viol(res, '%s|%s|bulk|exception:%s' % (case['sim'], case['wm'], simcase.exc_key(e)), {'err': repr(e)})
            return
        g = stats.gof(obs, law)
        bump(res, 'e6_tests')
        bump(res, 'e6_runs', case['runs'])
        setmax(res, 'e6_min_neglog10_p', -math.log10(max(g['p'], 1e-300)))
        if g['impossible']:
            viol(res, key.replace('_distribution', '_impossible_state'), {'states_with_probability_0_observed': [list(s) for s in g['impossible'][:3]]})
            return
        if g['p'] < alpha:
            bump(res, 'e6_first_stage_rejections')
            obs2 = self._observe(case, G, lab, tw, rw, I0, R0, 4 * case['runs'], case['seed'] + 7919, n)
            g2 = stats.gof(obs2, law)
            if g2['p'] < alpha:
                viol(res, key, {'chi2': g2['stat'], 'dof': g2['dof'], 'p': g2['p'], 'first_stage_p': g['p'], 'runs': 4 * case['runs'],
                                'graph': case['graph'], 'tau': case['tau'], 'gamma': case['gamma']})
        if len(law) > 1:
            res['nontrivial'] = self._distinct(case, 'e6:%s:%s:%s' % (case['sim'], case['mode'], case['full']))
            res['sample'] = {'kind': 'e6', 'sim': case['sim'], 'mode': case['mode'], 'graph': case['graph'], 'runs': case['runs'],
                             'chi2': g['stat'], 'dof': g['dof'], 'p': g['p'], 'cells': g['cells']}


    def run_rescale(self, case, res):
        import EoN
        G, lab, tw, rw, I0, R0 = simcase.build(case)
        nodes = list(G)
        ew = (lambda u, v: G.adj[u][v][tw]) if tw else (lambda u, v: 1.0)
        nw = (lambda u: G.nodes[u][rw]) if rw else (lambda u: 1.0)
        tau, gamma = case['tau'], case['gamma']
        tmin, tmax = case['tmin'], self._tmax(case)
        f = getattr(EoN, case['sim'])
        kw = dict(initial_infecteds=list(I0), tmin=tmin, tmax=tmax, transmission_weight=tw, recovery_weight=rw, return_full_data=True)
        if self.MODEL == 'SIR':
            kw['initial_recovereds'] = list(R0)
        us = []
        dev, var = 0.0, 0.0
        wdev, wvar, nwho = 0.0, 0.0, 0
        hz, nhz = 0.0, 0
        nev = 0
        rr = random.Random(case['seed'] + 3)
        simcase.seed_all(case['seed'])
        try:
            for _ in range(case['runs']):
                sim = f(G, tau, gamma, **kw)
                ev = markov.history_events(sim, nodes, tmin)
                status = {u: 'S' for u in nodes}
                for u in I0:
                    status[u] = 'I'
                for u in R0:
                    status[u] = 'R'
                # incremental rates
                rec_rate = sum(gamma * nw(u) for u in I0)
                inf_rate = sum(tau * ew(u, v) for u in I0 for v in G.neighbors(u) if status[v] == 'S')
                t = tmin
                maxlam = rec_rate + inf_rate
                press = {}
                for u in I0:
                    for x in G.neighbors(u):
                        if status[x] == 'S':
                            press[x] = press.get(x, 0.0) + tau * ew(u, x)
                for (et, v, old, new) in ev:
                    lam = rec_rate + inf_rate
                    # who: given that the event is an infection (recovery), the node is v with probability pressure(v)/sum (rate(v)/sum);
                    # test statistic: indicator that the node with the largest pressure (rate) was the one
                    if len(nodes) > 400 and nev % 10:
                        cand = {}            # large networks: every tenth event only (the candidate table costs O(N))
                    elif new == 'I':
                        cand = {x: w for x, w in press.items() if status[x] == 'S' and w > 0}
                    else:
                        cand = {x: gamma * nw(x) for x in nodes if status[x] == 'I'}
                    if len(cand) >= 2:
                        mx = max(cand.values())
                        top = [x for x, w in cand.items() if w >= mx * (1 - 1e-12)]
                        tot = sum(cand.values())
                        if len(top) < len(cand) and tot > 0:
                            pt = sum(cand[x] for x in top) / tot
                            wdev += (1.0 if v in top else 0.0) - pt
                            wvar += pt * (1 - pt)
                            nwho += 1
                    if lam <= 0:
                        viol(res, '%s|%s|event_after_total_rate_zero' % (case['sim'], case['wm']), {'t': et})
                        return
                    us.append(1 - math.exp(-lam * (et - t)))
                    hz += lam * (et - t)
                    nhz += 1
                    p_inf = inf_rate / lam
                    is_inf = 1.0 if new == 'I' else 0.0
                    dev += is_inf - p_inf
                    var += p_inf * (1 - p_inf)
                    nev += 1
                    t = et
                    # update
                    if new == 'I':
                        status[v] = 'I'
                        press.pop(v, None)
                        rec_rate += gamma * nw(v)
                        for x in G.neighbors(v):
                            if status[x] == 'S':
                                inf_rate += tau * ew(v, x)
                                press[x] = press.get(x, 0.0) + tau * ew(v, x)
                            elif status[x] == 'I' and x != v:
                                inf_rate -= tau * ew(x, v)
                    else:
                        status[v] = new
                        rec_rate -= gamma * nw(v)
                        for x in G.neighbors(v):
                            if status[x] == 'S':
                                inf_rate -= tau * ew(v, x)
                                press[x] = sum(tau * ew(y, x) for y in G.neighbors(x) if status[y] == 'I')
                            elif status[x] == 'I' and new == 'S':
                                inf_rate += tau * ew(x, v)
                        if new == 'S':
                            press[v] = sum(tau * ew(y, v) for y in G.neighbors(v) if status[y] == 'I')
                    maxlam = max(maxlam, lam)
                    if abs(rec_rate) < 1e-9 * maxlam:     # the harness's own running sums carry rounding residue
                        rec_rate = 0.0
                    if abs(inf_rate) < 1e-9 * maxlam:
                        inf_rate = 0.0
                lam = rec_rate + inf_rate
                if lam > 0 and tmax < float('inf'):
                    hz += lam * (tmax - t)          # compensator up to the horizon (no event in the censored tail)
                    # censored last interval: randomised probability integral transform of min(Exp, c)
                    c0 = 1 - math.exp(-lam * (tmax - t))
                    us.append(c0 + (1 - c0) * rr.random())
                elif lam > 0 and tmax == float('inf'):
                    viol(res, '%s|%s|stopped_although_total_rate_positive' % (case['sim'], case['wm']), {'t': t, 'rate': lam})
                    return
        except Exception as e:
            viol(res, '%s|%s|bulk|exception:%s' % (case['sim'], case['wm'], simcase.exc_key(e)), {'err': repr(e)})
            return
        alpha = stats.ALPHA_RUN / max(1, case['ntests'])
        ks = stats.ks_uniform(us)
        zt = stats.ztest(dev, var)
        wt = stats.ztest(wdev, wvar)
        # counting-process martingale: (number of events) - (integrated total rate, including the censored tail up to tmax) has mean 0 and
        # predictable variance equal to the integrated rate; unit jumps, so the Bernstein / Freedman bound applies
        if nhz:
            ht = stats.ztest(nhz - hz, hz)
            setmax(res, 'rescale_min_neglog10_p', -math.log10(max(ht['p'], 1e-300)))
            if ht['p'] < alpha:
                viol(res, '%s|%s|total_integrated_hazard' % (case['sim'], case['wm']), {'events': nhz, 'integrated_total_rate': hz, 'z': ht, 'graph_kind': case['graph'].get('kind'),
                                                                                       'n': case['graph']['n'], 'tau': tau, 'gamma': gamma})
        bump(res, 'rescale_who_events', nwho)
        if case['graph'].get('kind') in ('hubstar', 'bridge'):
            bump(res, 'rescale_uneven_or_hub_cases')
        if case['graph'].get('kind') == 'long':
            bump(res, 'rescale_long_run_cases')
            setmax(res, 'rescale_max_events_in_one_call', nev // max(1, case['runs']))
        if nwho and wt['p'] < alpha:
            viol(res, '%s|%s|which_node_probability' % (case['sim'], case['wm']), {'z': wt, 'events': nwho, 'graph_kind': case['graph'].get('kind'), 'n': case['graph']['n'], 'tau': tau, 'gamma': gamma})
        bump(res, 'rescale_tests', 4)
        bump(res, 'rescale_intervals', len(us))
        setmax(res, 'rescale_min_neglog10_p', -math.log10(max(min(ks['p'], zt['p']), 1e-300)))
        if ks['p'] < alpha:
            viol(res, '%s|%s|waiting_times_exponential_with_total_rate' % (case['sim'], case['wm']), {'ks': ks, 'graph': case['graph'], 'tau': tau, 'gamma': gamma})
        if zt['p'] < alpha:
            viol(res, '%s|%s|event_type_probability' % (case['sim'], case['wm']), {'z': zt, 'events': nev, 'graph': case['graph'], 'tau': tau, 'gamma': gamma})
        if nev:
            res['nontrivial'] = self._distinct(case, 'rescale:' + case['sim'])
            res['sample'] = {'kind': 'rescale', 'sim': case['sim'], 'graph': case['graph'], 'runs': case['runs'], 'intervals': len(us), 'ks': ks, 'z': zt}

    def run_case(self, case):
        res = new_result()
        k = case['kind']
        if k == 'e2':
            self.run_e2(case, res)
        elif k == 'e3':
            self.run_e3(case, res)
        elif k == 'fast':
            self.run_fast(case, res)
        elif k == 'rescale':
            self.run_rescale(case, res)
        elif k == 'endure':
            self.run_endure(case, res)
        else:
            self.run_e6(case, res)
        return res
