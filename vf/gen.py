"""E7 - seeded generators.  Graphs are described in index space (nodes 0..n-1, edge list) plus a
label scheme, so every case is a small JSON-able dict and can be replayed."""
import random, itertools, math
import networkx as nx

LABEL_SCHEMES = ['int', 'perm', 'neg', 'str', 'tuple', 'mixed', 'offset', 'nested', 'fset']
CONTAINER_LIKE = ('tuple', 'mixed', 'nested', 'fset')      # schemes whose labels are themselves iterables


def label_fn(scheme, n, salt=0):
    if scheme == 'int':
        return lambda i: i
    if scheme == 'offset':
        return lambda i: i + 5
    if scheme == 'neg':
        return lambda i: -i - 1
    if scheme == 'perm':
        r = random.Random(1000 + salt + n)
        p = list(range(n))
        r.shuffle(p)
        return lambda i: p[i]
    if scheme == 'str':
        r = random.Random(2000 + salt + n)
        names = ['n%03d' % k for k in range(n)]
        r.shuffle(names)
        return lambda i: names[i]
    if scheme == 'tuple':
        return lambda i: (i // 3, i % 3)
    if scheme == 'mixed':
        def f(i):
            m = i % 4
            if m == 0:
                return i
            if m == 1:
                return 'v%d' % i
            if m == 2:
                return (i, 'x')
            return frozenset([i, -i - 1])
        return f
    if scheme == 'fset':
        # disjoint frozensets (the node labels of nx.quotient_graph): hashable, iterable, and only partially ordered - `a < b`, `min(a, b)`
        # raise nothing and mean nothing
        return lambda i: frozenset([2 * i, 2 * i + 1])
    if scheme == 'nested':
        # labels that are iterables of other labels (a household node (0, 1) next to individuals 0 and 1, 'ab' next to 'a' and 'b') and
        # falsy labels (0, '', (), frozenset()).  The library documents: if something is a node, it is treated as that single node
        base = [0, 1, (0, 1), '', (), 'a', 'b', 'ab', frozenset(), frozenset([0, 1]), (1, 0), ((0, 1), 'a')]
        return lambda i: base[i] if i < len(base) else ('n', i)
    raise ValueError(scheme)


def build_graph(desc, directed=None):
    """desc: {'n', 'edges', 'labels'(scheme), 'salt', 'directed', 'ew': {name:[w per edge]}, 'nw': {name:[w per node]},
    'node_order': optional permutation of indices, 'edge_order': optional permutation of edge indices, 'flip': optional list of bool}"""
    n = desc['n']
    lab = label_fn(desc.get('labels', 'int'), n, desc.get('salt', 0))
    directed = desc.get('directed', False) if directed is None else directed
    G = nx.DiGraph() if directed else (nx.MultiGraph() if desc.get('multi') else nx.Graph())
    order = desc.get('node_order') or list(range(n))
    for i in order:
        G.add_node(lab(i))
    edges = [tuple(e) for e in desc['edges']]
    if desc.get('big') and not edges:
        # large network kept out of the description (tens of thousands of edges): ring plus random chords from a seed
        rr = random.Random(desc['big']['seed'])
        es = set()
        for i in range(n):
            es.add((min(i, (i + 1) % n), max(i, (i + 1) % n)))
            for _ in range(desc['big']['k'] - 1):
                j = rr.randrange(n)
                if j != i:
                    es.add((min(i, j), max(i, j)))
        edges = sorted(es)
    eorder = desc.get('edge_order') or list(range(len(edges)))
    flip = desc.get('flip') or [False] * len(edges)
    for k in eorder:
        u, v = edges[k]
        if flip[k] and not directed:
            u, v = v, u
        G.add_edge(lab(u), lab(v))
    for name, ws in (desc.get('ew') or {}).items():
        for (u, v), w in zip(edges, ws):
            G.edges[lab(u), lab(v)][name] = w
    for name, ws in (desc.get('nw') or {}).items():
        for i, w in enumerate(ws):
            G.nodes[lab(i)][name] = w
    if desc.get('decoy'):
        # attributes the call does not name must be ignored: networkx's own default attribute name 'weight' (and a few others) on edges
        # and nodes, with values far from 1
        k = 0
        for u, v, d in G.edges(data=True):
            k += 1
            d['weight'] = 0.05 + 3.1 * (k % 5)
            d['rate'] = 7.0
        for k, u in enumerate(G.nodes()):
            G.nodes[u]['weight'] = 0.3 + 2.3 * (k % 3)
    return G, lab


# ---------------------------------------------------------------- enumerations
_atlas = None


def atlas(max_n, min_n=1):
    """all graphs up to isomorphism with min_n..max_n nodes (networkx atlas, <=7 nodes)."""
    global _atlas
    if _atlas is None:
        _atlas = nx.graph_atlas_g()
    out = []
    for g in _atlas:
        if min_n <= g.number_of_nodes() <= max_n:
            out.append({'n': g.number_of_nodes(), 'edges': sorted([sorted(e) for e in g.edges()])})
    return out


def all_trees(max_n, min_n=2):
    out = []
    for n in range(min_n, max_n + 1):
        if n == 1:
            out.append({'n': 1, 'edges': []})
            continue
        for t in nx.nonisomorphic_trees(n):
            out.append({'n': n, 'edges': sorted([sorted(e) for e in t.edges()])})
    return out


def all_digraphs(n):
    pairs = [(u, v) for u in range(n) for v in range(n) if u != v]
    for mask in range(1 << len(pairs)):
        yield {'n': n, 'edges': [list(p) for k, p in enumerate(pairs) if mask >> k & 1], 'directed': True}


def all_labelled_graphs(n):
    pairs = [(u, v) for u in range(n) for v in range(u + 1, n)]
    for mask in range(1 << len(pairs)):
        yield {'n': n, 'edges': [list(p) for k, p in enumerate(pairs) if mask >> k & 1]}


# ---------------------------------------------------------------- random graphs
def random_graph(r, nmin=1, nmax=12, kinds=None):
    kinds = kinds or ['gnp', 'gnp', 'gnp_sparse', 'path', 'cycle', 'star', 'complete', 'regular', 'tree', 'isolated',
                      'two_comp', 'single', 'edgeless', 'grid', 'config']
    kind = r.choice(kinds)
    n = r.randint(nmin, nmax)
    edges = set()
    if kind == 'single':
        n = 1
    elif kind == 'edgeless':
        pass
    elif kind == 'gnp':
        p = r.choice([0.2, 0.35, 0.5, 0.8])
        for u in range(n):
            for v in range(u + 1, n):
                if r.random() < p:
                    edges.add((u, v))
    elif kind == 'gnp_sparse':
        p = min(1.0, 1.5 / max(1, n))
        for u in range(n):
            for v in range(u + 1, n):
                if r.random() < p:
                    edges.add((u, v))
    elif kind == 'path':
        edges = {(i, i + 1) for i in range(n - 1)}
    elif kind == 'cycle':
        n = max(n, 3)
        edges = {(i, (i + 1) % n) for i in range(n)}
        edges = {tuple(sorted(e)) for e in edges}
    elif kind == 'star':
        edges = {(0, i) for i in range(1, n)}
    elif kind == 'complete':
        n = min(n, 8)
        edges = {(u, v) for u in range(n) for v in range(u + 1, n)}
    elif kind == 'regular':
        n = max(n, 4)
        d = r.choice([2, 3, 4])
        if d >= n:
            d = n - 1
        if (n * d) % 2:
            n += 1
        g = nx.random_regular_graph(d, n, seed=r.randint(0, 10**9))
        edges = {tuple(sorted(e)) for e in g.edges()}
    elif kind == 'tree':
        for i in range(1, n):
            edges.add((r.randrange(i), i))
    elif kind == 'isolated':
        m = max(1, n - r.randint(1, 3))
        for u in range(m):
            for v in range(u + 1, m):
                if r.random() < 0.5:
                    edges.add((u, v))
    elif kind == 'two_comp':
        n = max(n, 4)
        h = n // 2
        for u in range(h):
            for v in range(u + 1, h):
                if r.random() < 0.6:
                    edges.add((u, v))
        for u in range(h, n):
            for v in range(u + 1, n):
                if r.random() < 0.6:
                    edges.add((u, v))
    elif kind == 'grid':
        a = r.randint(2, 4)
        b = max(1, min(4, n // a))
        n = a * b
        for i in range(a):
            for j in range(b):
                if i + 1 < a:
                    edges.add((i * b + j, (i + 1) * b + j))
                if j + 1 < b:
                    edges.add((i * b + j, i * b + j + 1))
    elif kind == 'config':
        n = max(n, 4)
        degs = [r.choice([1, 1, 2, 2, 3, 4]) for _ in range(n)]
        if sum(degs) % 2:
            degs[0] += 1
        g = nx.Graph(nx.configuration_model(degs, seed=r.randint(0, 10**9)))
        g.remove_edges_from(nx.selfloop_edges(g))
        edges = {tuple(sorted(e)) for e in g.edges()}
    return {'n': n, 'edges': sorted([list(e) for e in edges]), 'kind': kind, 'decoy': r.random() < 0.3}


def random_digraph(r, nmin=1, nmax=10):
    n = r.randint(nmin, nmax)
    p = r.choice([0.0, 0.1, 0.2, 0.35, 0.6])
    edges = [[u, v] for u in range(n) for v in range(n) if u != v and r.random() < p]
    return {'n': n, 'edges': edges, 'directed': True}


WEIGHT_KINDS = ['one', 'dyadic', 'nondyadic', 'wide', 'withzero']


def weights(r, m, kind):
    if kind == 'one':
        return [1.0] * m
    if kind == 'dyadic':
        return [r.choice([0.25, 0.5, 1.0, 1.5, 2.0, 4.0]) for _ in range(m)]
    if kind == 'nondyadic':
        return [r.choice([0.1, 0.2, 0.3, 0.7, 1.1, 1.3, 2.3]) for _ in range(m)]
    if kind == 'wide':
        return [10 ** r.uniform(-2, 2) for _ in range(m)]     # rejection sampling cost grows with the weight ratio; 24 orders of magnitude are exercised in C16
    if kind == 'withzero':
        return [r.choice([0.0, 0.5, 1.0, 1.7]) for _ in range(m)]
    raise ValueError(kind)


def shuffle_desc(r, desc):
    """same graph, different node / edge insertion order and edge orientation."""
    d = dict(desc)
    no = list(range(desc['n']))
    r.shuffle(no)
    eo = list(range(len(desc['edges'])))
    r.shuffle(eo)
    d['node_order'] = no
    d['edge_order'] = eo
    d['flip'] = [r.random() < 0.5 for _ in desc['edges']]
    return d


def iso_key(desc):
    """cheap isomorphism-invariant key: n, m, sorted degree sequence, WL hash."""
    g = nx.DiGraph() if desc.get('directed') else nx.Graph()
    g.add_nodes_from(range(desc['n']))
    g.add_edges_from([tuple(e) for e in desc['edges']])
    return '%d:%d:%s' % (desc['n'], g.number_of_edges(), nx.weisfeiler_lehman_graph_hash(g, iterations=3)[:12])


# ---------------------------------------------------------------- call histories: the same graph object, edited in place between calls
def make_prehistory(r, desc, k=None):
    """-> None or {'prev_edges': [...], 'ops': [[edge index, u, old endpoint, new endpoint], ...]}: a *previous* version of the graph
    (same nodes, same number of edges, some edge ends elsewhere) and the in-place edits that turn it into `desc`.  A harness that calls the
    library on the previous version first and then edits the very same object exercises whatever the library keeps between calls."""
    if desc.get('directed') or desc.get('multi') or desc['n'] < 3 or not desc['edges']:
        return None
    n = desc['n']
    edges = [tuple(e) for e in desc['edges']]
    present = set(frozenset(e) for e in edges)
    ops = []
    for _ in range(k or r.randint(1, 3)):
        i = r.randrange(len(edges))
        u, v = edges[i]
        if r.random() < 0.5:
            u, v = v, u
        cand = [w for w in range(n) if w != u and w != v and frozenset((u, w)) not in present]
        if not cand:
            continue
        w = r.choice(cand)
        present.discard(frozenset((u, v)))
        present.add(frozenset((u, w)))
        edges[i] = (u, w)
        ops.append([i, u, w, v])          # undoing it: edge i currently (u, w) goes back to (u, v)
    if not ops:
        return None
    ops.reverse()
    return {'prev_edges': [list(e) for e in edges], 'ops': ops}


def build_graph_with_history(desc, prehistory, warmup):
    """build the previous version, call warmup(G, lab) on it, then edit the object in place into `desc`."""
    dprev = dict(desc)
    dprev['edges'] = [list(e) for e in prehistory['prev_edges']]
    G, lab = build_graph(dprev)
    try:
        warmup(G, lab)
    except Exception:
        pass
    for i, u, old, new in prehistory['ops']:
        attrs = dict(G.edges[lab(u), lab(old)])
        G.remove_edge(lab(u), lab(old))
        G.add_edge(lab(u), lab(new), **attrs)
    # the result must be the graph described by desc
    want = set(frozenset((lab(a), lab(b))) for a, b in desc['edges'])
    got = set(frozenset(e) for e in G.edges())
    assert want == got, 'prehistory does not lead to the described graph'
    return G, lab
