"""E2 for the generic Gillespie simulators (C03 simple contagion, C15 complex contagion).

The state is tracked from the initial statuses and the *recorded decisions* (so that partial, aborted runs of the
explorer can be judged too); the returned output, when there is one, is compared with the tracked events."""
from .markov import Cur, ParseError, parse_choose, check_selection, close


class SpecOracle(object):
    """interpreter of a simple-contagion specification, written from the docstring."""
    def __init__(self, G, H, J, node_w, edge_w):
        self.G = G
        self.directed = G.is_directed()
        try:
            self.spont = sorted(H.edges())
            self.induced = sorted(J.edges())
        except TypeError:
            self.spont = list(H.edges())
            self.induced = list(J.edges())
        self.rate = {}
        for a, c in self.spont:
            self.rate[(a, c)] = H.adj[a][c]['rate']
        for a, c in self.induced:
            self.rate[(a, c)] = J.adj[a][c]['rate']
        self.node_w, self.edge_w = node_w, edge_w
        self.transitions = [('s', t) for t in self.spont] + [('i', t) for t in self.induced]

    def enabled(self, status):
        """-> list of (kind, transition, {candidate: weight}) in scan order"""
        out = []
        for a, c in self.spont:
            w = self.node_w.get((a, c))
            out.append(('s', (a, c), {u: (w[u] if w is not None else 1.0) for u in self.G if status[u] == a}))
        pairs = []
        for u in self.G:
            for v in (self.G.successors(u) if self.directed else self.G.neighbors(u)):
                if v != u:
                    pairs.append((u, v))
        for ab, ac in self.induced:
            w = self.edge_w.get((ab, ac))
            out.append(('i', (ab, ac), {(u, v): (w[(u, v)] if w is not None else 1.0) for (u, v) in pairs if (status[u], status[v]) == ab}))
        return out


def e2_simple(oracle, IC, tmin, tmax, log, fails, counters, annot=None, states=None, nodes=None, partial=False, two_level=False):
    """returns list of tracked events (t, node, old, new, source or None)."""
    status = dict(IC)
    nodes = nodes or list(oracle.G)
    cur = Cur(log)
    t = tmin
    maxrate = [0.0]
    events = []

    def key():
        return tuple(status[u] for u in nodes)

    def bump(k, n=1):
        counters[k] = counters.get(k, 0) + n

    def clock():
        nonlocal t
        en = oracle.enabled(status)
        rates = [oracle.rate[tr] * sum(c.values()) for (_, tr, c) in en]
        lam = sum(rates)
        if two_level and lam < 1e-6 * maxrate[0]:
            # workloads built with exactly one weight ~1e12 times all the others together: when it leaves, the library's list recomputes its
            # running total (remainder < 1e-9 * removed weight), so the absolute slack owed to the earlier, huge total no longer applies
            maxrate[0] = lam
            bump('two_level_drops_seen')
        maxrate[0] = max(maxrate[0], lam)
        tol = 1e-9 * lam + 1e-12 * maxrate[0]
        e = cur.peek()
        bump('clock_draws_checked')
        if e is None and partial:
            return None
        if lam > tol or (e is not None and e[0] == 'expo'):
            if e is None or e[0] != 'expo':
                fails.append(('clock_rate', {'why': 'no exponential clock draw although total rate %r > 0' % lam, 'state': key()}))
                return None
            cur.next('expo')
            if abs(e[1] - lam) > tol:
                fails.append(('clock_rate', {'state': [repr(x) for x in key()], 'used': e[1], 'specification': lam}))
                return None
            t = t + e[2]
        else:
            t = float('inf')
        return en, rates, lam

    c = clock()
    nsteps = 0
    while c is not None:
        en, rates, lam = c
        if not (lam > 1e-9 * lam + 1e-12 * maxrate[0]) or not (t < tmax):
            break
        if cur.done() and partial:
            return events
        if states is not None:
            states.add(key())
        # --- transition scan: cumulative thresholds
        cur.next('uniform')
        cum = 0.0
        chosen = None
        k = 0
        while k < len(en):
            if cur.done() and partial:
                return events
            p0 = cur.pos()
            m = cur.next('cmp')
            cum += rates[k] / lam
            bump('scan_thresholds_checked')
            if abs(m[2] - cum) > 1e-9:
                fails.append(('transition_probability', {'state': [repr(x) for x in key()], 'transition': repr(en[k][1]), 'cumulative_threshold_used': m[2], 'specification': cum}))
                return events
            if annot is not None:
                annot[p0] = (key(), 'scan', k)
            if m[3]:
                chosen = k
                break
            k += 1
        if chosen is None:
            chosen = len(en) - 1          # rounding: scan exhausted, code keeps the last transition
        kind, tr, cands = en[chosen]
        if rates[chosen] <= 0:
            fails.append(('transition_probability', {'why': 'transition of rate 0 selected', 'transition': repr(tr)}))
            return events
        weighted = (oracle.node_w.get(tr) is not None) if kind == 's' else (oracle.edge_w.get(tr) is not None)
        if cur.done() and partial:
            return events
        try:
            pop, props, actor = parse_choose(cur, weighted)
        except ParseError:
            if partial and cur.done():
                return events
            raise
        sub = []
        check_selection(pop, props, cands, weighted, sub, 'actor_', counters)
        if sub:
            fails.extend(sub)
            return events
        if annot is not None:
            for cnd, thr, acc, q0, q1 in props:
                annot[q0] = (key(), 'choice', chosen)
                if q1 is not None:
                    annot[q1] = (key(), 'accept', chosen, cnd)
        if kind == 's':
            node, src, old, new = actor, None, tr[0], tr[1]
        else:
            src, node = actor
            old, new = tr[0][1], tr[1][1]
        if status[node] != old:
            fails.append(('effect', {'why': 'actor does not have the status the transition starts from', 'node': repr(node), 'status': repr(status[node]), 'transition': repr(tr)}))
            return events
        events.append((t, node, old, new, src))
        status[node] = new
        nsteps += 1
        c = clock()
    counters['steps_law_checked'] = counters.get('steps_law_checked', 0) + nsteps
    if not partial and not fails:
        if not cur.done():
            fails.append(('termination', {'why': 'random draws after the process should have stopped', 'next': cur.peek(), 't': t}))
        else:
            counters['terminations_checked'] = counters.get('terminations_checked', 0) + 1
    return events


def e2_complex(G, rate_fn, chooser, IC, tmin, tmax, log, chooser_calls, fails, counters, annot=None, states=None, partial=False, two_scale=False):
    """complex contagion: clock == sum over ALL nodes of the user rate on the current statuses, candidates == nodes of positive
    rate with weight == rate, new status == chooser's answer, stop iff all rates 0 or t>=tmax."""
    status = dict(IC)
    nodes = list(G)
    cur = Cur(log)
    t = tmin
    maxrate = [0.0]
    events = []
    ci = 0

    def key():
        return tuple(status[u] for u in nodes)

    def bump(k, n=1):
        counters[k] = counters.get(k, 0) + n

    def clock():
        nonlocal t
        rates = {u: rate_fn(G, u, status) for u in nodes}
        lam = sum(rates.values())
        if two_scale and lam < 1e-9 * maxrate[0]:
            # a model whose rates live on two scales more than nine orders of magnitude apart: once the last fast node has left, the
            # residue a running total may carry from the fast scale is gone as well (the sampler re-sums on near-total cancellation,
            # the standard C16 holds it to) - the total is again the sum of the slow rates to relative accuracy
            maxrate[0] = lam
            bump('clock_totals_checked_after_the_fast_scale_left')
        maxrate[0] = max(maxrate[0], lam)
        tol = 1e-9 * lam + 1e-12 * maxrate[0]
        e = cur.peek()
        bump('clock_draws_checked')
        if e is None and partial:
            return None
        if lam > tol or (e is not None and e[0] == 'expo'):
            if e is None or e[0] != 'expo':
                fails.append(('clock_rate', {'why': 'no clock draw although the true total rate is %r' % lam, 'state': [repr(x) for x in key()]}))
                return None
            cur.next('expo')
            if abs(e[1] - lam) > tol:
                fails.append(('clock_rate', {'state': [repr(x) for x in key()], 'used': e[1], 'sum_of_current_rates': lam}))
                return None
            t = t + e[2]
        else:
            t = float('inf')
        return rates, lam

    c = clock()
    nsteps = 0
    while c is not None:
        rates, lam = c
        if not (lam > 1e-9 * lam + 1e-12 * maxrate[0]) or not (t < tmax):
            break
        if cur.done() and partial:
            return events
        if states is not None:
            states.add(key())
        try:
            pop, props, actor = parse_choose(cur, True)
        except ParseError:
            if partial and cur.done():
                return events
            raise
        cands = {u: r for u, r in rates.items() if r > 0}
        sub = []
        # zero-rate nodes must not be candidates at all (statement: "no zero-rate node is a candidate")
        extra0 = [u for u in pop if rates.get(u, 0) <= 0]
        if extra0:
            fails.append(('candidate_set', {'why': 'node with rate 0 kept as candidate', 'nodes': [repr(x) for x in extra0][:4]}))
            return events
        check_selection(pop, props, cands, True, sub, 'actor_', counters)
        if sub:
            fails.extend(sub)
            return events
        if annot is not None:
            for cnd, thr, acc, q0, q1 in props:
                annot[q0] = (key(), 'choice')
                if q1 is not None:
                    annot[q1] = (key(), 'accept', cnd)
        new = chooser(G, actor, status)
        if ci < len(chooser_calls):
            cn, cs, cres = chooser_calls[ci]
            ci += 1
            bump('chooser_calls_checked')
            if cn != actor or cs != key():
                fails.append(('chooser_called_on_selected_node_with_current_statuses', {'selected': repr(actor), 'called_with': repr(cn)}))
                return events
        elif not partial:
            fails.append(('effect', {'why': 'transition chooser not called for a selected node', 'node': repr(actor)}))
            return events
        events.append((t, actor, status[actor], new, None))
        status[actor] = new
        nsteps += 1
        c = clock()
    counters['steps_law_checked'] = counters.get('steps_law_checked', 0) + nsteps
    if not partial and not fails:
        if not cur.done():
            fails.append(('termination', {'why': 'random draws after all rates became 0 / tmax', 'next': cur.peek(), 't': t}))
        else:
            counters['terminations_checked'] = counters.get('terminations_checked', 0) + 1
    return events
