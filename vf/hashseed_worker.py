"""Subprocess worker for C18: runs the given cases under this interpreter's PYTHONHASHSEED and prints one digest per case."""
import sys, json, hashlib, os


def canon_bytes(call, out):
    import numpy as np
    h = hashlib.sha256()

    def cn(x):
        return repr(int(x)) if isinstance(x, np.integer) else repr(x)
    if hasattr(out, 'node_history'):
        for u in call.G:                      # G.nodes() order is insertion order: hash-seed independent
            ts, ss = out.node_history(u)
            h.update(repr((cn(u), [float(t) for t in ts], [repr(s) for s in ss])).encode())
        try:
            for t, a, b in out.transmissions():
                h.update(repr((float(t), cn(a), cn(b))).encode())
        except Exception:
            h.update(b'no-transmissions')
        t, D = out.summary()
        h.update(np.asarray(t, dtype=float).tobytes())
    else:
        for a in out:
            h.update(np.asarray(a, dtype=float).tobytes())
    return h.hexdigest()


def main():
    sys.path.insert(0, os.path.dirname(os.path.dirname(os.path.abspath(__file__))))
    from vf import boot
    boot.init()
    from vf import simreg, simcase
    cases = json.load(sys.stdin)
    out = []
    for case in cases:
        try:
            call = simreg.build_call(case)
            simcase.seed_all(case['seed'])
            res = call.f(*call.args, **call.kw)
            out.append(canon_bytes(call, res))
        except Exception as e:
            out.append('EXC:%s' % type(e).__name__)
    json.dump(out, sys.stdout)


if __name__ == '__main__':
    main()
