"""E6 - statistical decisions with an explicit false-alarm budget (used only where the law is not visible per step)."""
import math
from scipy.stats import chi2, kstwo, norm

ALPHA_RUN = 1e-9     # total false-alarm budget of one check run; Bonferroni over its tests


def gof(observed, expected_p, n=None, min_expected=10.0):
    """Pearson chi-square of observed counts (dict) against cell probabilities (dict).
    Returns dict(stat, dof, p, impossible=[cells observed with probability 0]).  Cells with small expectation pooled."""
    n = n if n is not None else sum(observed.values())
    impossible = [c for c in observed if expected_p.get(c, 0.0) <= 0.0 and observed[c] > 0]
    cells = sorted(expected_p, key=lambda c: -expected_p[c])
    groups = []
    pool_o, pool_e = 0.0, 0.0
    for c in cells:
        e = n * expected_p[c]
        o = observed.get(c, 0)
        if e >= min_expected:
            groups.append((o, e))
        else:
            pool_o += o
            pool_e += e
    if pool_e > 0:
        if pool_e >= min_expected or not groups:
            groups.append((pool_o, pool_e))
        else:
            o, e = groups.pop()
            groups.append((o + pool_o, e + pool_e))
    stat = sum((o - e) ** 2 / e for o, e in groups if e > 0)
    dof = max(1, len(groups) - 1)
    p = float(chi2.sf(stat, dof)) if len(groups) > 1 else 1.0
    return {'stat': stat, 'dof': dof, 'p': p, 'impossible': impossible, 'cells': len(groups)}


def ks_uniform(us):
    """two-sided KS test of a sample against U(0,1)."""
    us = sorted(us)
    n = len(us)
    if n == 0:
        return {'stat': 0.0, 'p': 1.0, 'n': 0}
    d = 0.0
    for i, u in enumerate(us):
        d = max(d, (i + 1) / n - u, u - i / n)
    return {'stat': d, 'p': float(kstwo.sf(d, n)), 'n': n}


def ztest(sum_dev, sum_var):
    """sum of bounded martingale differences (each in [-1, 1]) with predictable variance sum_var.  The p-value is the larger of the
    normal tail and the Bernstein / Freedman bound 2 exp(-s^2 / (2 (V + s/3))), so that skewed increments (probabilities near 0 or 1,
    few events) cannot produce an astronomically small p-value from a handful of unlikely outcomes."""
    if sum_var <= 0:
        return {'z': 0.0, 'p': 1.0}
    z = sum_dev / math.sqrt(sum_var)
    s_ = abs(sum_dev)
    bern = min(1.0, 2 * math.exp(-s_ * s_ / (2 * (sum_var + s_ / 3.0))))
    return {'z': z, 'p': float(max(2 * norm.sf(abs(z)), bern))}
