"""Independent initial-condition counter for the ODE models: everything a model may need at t = tmin, computed from
(G, initial infected set, initial recovered set) or from rho, straight from the definitions in Kiss-Miller-Simon."""
import numpy as np
from scipy.special import comb


def degrees(G):
    deg = dict(G.degree())
    maxk = max(deg.values()) if deg else 0
    Nk = np.zeros(maxk + 1)
    for d in deg.values():
        Nk[d] += 1
    return deg, maxk, Nk


def from_sets(G, I0, R0=()):
    I0, R0 = set(I0), set(R0)
    st = {u: ('I' if u in I0 else ('R' if u in R0 else 'S')) for u in G}
    deg, maxk, Nk = degrees(G)
    N = G.order()
    ic = {'N': float(N), 'S': float(sum(1 for u in G if st[u] == 'S')), 'I': float(len(I0)), 'R': float(len(R0)), 'maxk': maxk, 'Nk': Nk}
    Sk, Ik, Rk = np.zeros(maxk + 1), np.zeros(maxk + 1), np.zeros(maxk + 1)
    for u in G:
        {'S': Sk, 'I': Ik, 'R': Rk}[st[u]][deg[u]] += 1
    ic.update(Sk=Sk, Ik=Ik, Rk=Rk)
    SS = SI = II = 0.0
    Ks = sorted(set(deg.values()))
    pos = {k: i for i, k in enumerate(Ks)}
    K = len(Ks)
    SkSl, SkIl, IkIl, NkNl = np.zeros((K, K)), np.zeros((K, K)), np.zeros((K, K)), np.zeros((K, K))
    for u in G:
        for v in G.neighbors(u):          # ordered pairs (u,v)
            a, b = pos[deg[u]], pos[deg[v]]
            NkNl[a, b] += 1
            if st[u] == 'S' and st[v] == 'S':
                SS += 1
                SkSl[a, b] += 1
            elif st[u] == 'S' and st[v] == 'I':
                SI += 1
                SkIl[a, b] += 1
            elif st[u] == 'I' and st[v] == 'I':
                II += 1
                IkIl[a, b] += 1
    ic.update(SS=SS, SI=SI, II=II, Ks=np.array(Ks), SkSl=SkSl, SkIl=SkIl, IkIl=IkIl, NkNl=NkNl)
    Ssi, Isi = np.zeros((maxk + 1, maxk + 1)), np.zeros((maxk + 1, maxk + 1))
    Ssi_sir = np.zeros((maxk + 1, maxk + 1))
    Skappa = np.zeros(maxk + 1)
    for u in G:
        s = sum(1 for v in G.neighbors(u) if st[v] == 'S')
        i = sum(1 for v in G.neighbors(u) if st[v] == 'I')
        if st[u] == 'S':
            Ssi[s, deg[u] - s] += 1       # SIS: every non-S neighbour is I
            Ssi_sir[s, i] += 1
            Skappa[s + i] += 1
        elif st[u] == 'I':
            Isi[s, deg[u] - s] += 1
    ic.update(Ssi=Ssi, Isi=Isi, Ssi_sir=Ssi_sir, Skappa=Skappa)
    # EBCM quantities
    SX = sum(deg[u] for u in G if st[u] == 'S')
    ic['phiS'] = (SS / SX) if SX else 0.0
    ic['phiR'] = (sum(1 for u in G if st[u] == 'S' for v in G.neighbors(u) if st[v] == 'R') / SX) if SX else 0.0
    ic['status'] = st
    return ic


def from_rho(G, rho):
    deg, maxk, Nk = degrees(G)
    N = G.order()
    ic = {'N': float(N), 'S': (1 - rho) * N, 'I': rho * N, 'R': 0.0, 'maxk': maxk, 'Nk': Nk}
    ic.update(Sk=(1 - rho) * Nk, Ik=rho * Nk, Rk=0 * Nk)
    twoM = float(sum(deg.values()))
    ic.update(SS=(1 - rho) ** 2 * twoM, SI=(1 - rho) * rho * twoM, II=rho ** 2 * twoM)
    Ks = sorted(set(deg.values()))
    pos = {k: i for i, k in enumerate(Ks)}
    K = len(Ks)
    NkNl = np.zeros((K, K))
    for u in G:
        for v in G.neighbors(u):
            NkNl[pos[deg[u]], pos[deg[v]]] += 1
    ic.update(Ks=np.array(Ks), NkNl=NkNl, SkSl=(1 - rho) ** 2 * NkNl, SkIl=(1 - rho) * rho * NkNl, IkIl=rho ** 2 * NkNl)
    Ssi, Isi = np.zeros((maxk + 1, maxk + 1)), np.zeros((maxk + 1, maxk + 1))
    for k in range(maxk + 1):
        for i in range(k + 1):
            s = k - i
            b = comb(k, i) * rho ** i * (1 - rho) ** s
            Ssi[s, i] = (1 - rho) * Nk[k] * b
            Isi[s, i] = rho * Nk[k] * b
    ic.update(Ssi=Ssi, Isi=Isi, Ssi_sir=Ssi, Skappa=(1 - rho) * Nk)
    ic['phiS'] = 1 - rho
    ic['phiR'] = 0.0
    return ic
