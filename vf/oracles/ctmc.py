"""Independent CTMC oracles (written from the property statements; share no code with EoN)."""
import itertools
import numpy as np


def sir_sis_law(nodes, nbrs, status, tau, gamma, ew, nw):
    """rates of the enabled events in `status` (dict node->'S'/'I'/'R').
    returns rec {u: rate}, trans {(u,v): rate}  (every structurally enabled event, including zero-rate ones)."""
    rec, trans = {}, {}
    for u in nodes:
        if status[u] == 'I':
            rec[u] = gamma * nw(u)
            for v in nbrs[u]:
                if status[v] == 'S' and v != u:
                    trans[(u, v)] = tau * ew(u, v)
    return rec, trans


def build_chain(n, edges, tau, gamma, ew, nw, model, max_states=20000):
    """Markov chain on status vectors (tuples over 0..n-1).  ew[(u,v)], nw[u] dicts of weights (index space).
    Returns states(list), index(dict), Q (dense generator)."""
    nbrs = {i: [] for i in range(n)}
    for u, v in edges:
        nbrs[u].append(v)
        nbrs[v].append(u)
    letters = 'SIR' if model == 'SIR' else 'SI'
    states = list(itertools.product(letters, repeat=n))
    if len(states) > max_states:
        raise ValueError('too many states')
    index = {s: k for k, s in enumerate(states)}
    Q = np.zeros((len(states), len(states)))
    for s in states:
        k = index[s]
        for u in range(n):
            if s[u] != 'I':
                continue
            r = gamma * nw[u]
            if r > 0:
                t = list(s)
                t[u] = 'R' if model == 'SIR' else 'S'
                Q[k, index[tuple(t)]] += r
            for v in nbrs[u]:
                if s[v] == 'S':
                    r = tau * ew[(u, v)]
                    if r > 0:
                        t = list(s)
                        t[v] = 'I'
                        Q[k, index[tuple(t)]] += r
    for k in range(len(states)):
        Q[k, k] = -Q[k].sum()
    return states, index, Q


def state_at_T(states, index, Q, s0, T):
    from scipy.linalg import expm
    P = expm(Q * T)
    row = P[index[s0]]
    row = np.clip(row, 0, None)
    row = row / row.sum()
    return {states[k]: row[k] for k in range(len(states)) if row[k] > 1e-15}


def absorbing_law(states, index, Q, s0):
    """distribution over absorbing states reached from s0 (jump chain; SIR chains are acyclic, SIS with gamma>0 are
    absorbed in all-S).  Solved by linear algebra on the transient part."""
    nS = len(states)
    out = -np.diag(Q)
    absorbing = [k for k in range(nS) if out[k] <= 0]
    transient = [k for k in range(nS) if out[k] > 0]
    # restrict to states reachable from s0
    reach = {index[s0]}
    stack = [index[s0]]
    while stack:
        k = stack.pop()
        for j in np.nonzero(Q[k] > 0)[0]:
            if j != k and j not in reach:
                reach.add(int(j))
                stack.append(int(j))
    tr = [k for k in transient if k in reach]
    ab = [k for k in absorbing if k in reach]
    if index[s0] in ab:
        return {s0: 1.0}
    pos = {k: i for i, k in enumerate(tr)}
    A = np.zeros((len(tr), len(tr)))
    B = np.zeros((len(tr), len(ab)))
    apos = {k: i for i, k in enumerate(ab)}
    for k in tr:
        for j in np.nonzero(Q[k] > 0)[0]:
            j = int(j)
            if j == k:
                continue
            p = Q[k, j] / out[k]
            if j in pos:
                A[pos[k], pos[j]] += p
            else:
                B[pos[k], apos[j]] += p
    X = np.linalg.solve(np.eye(len(tr)) - A, B)
    row = X[pos[index[s0]]]
    return {states[k]: row[apos[k]] for k in ab if row[apos[k]] > 1e-15}


def reachable_states(n, edges, tau, gamma, ew, nw, model, s0):
    nbrs = {i: [] for i in range(n)}
    for u, v in edges:
        nbrs[u].append(v)
        nbrs[v].append(u)
    seen = {tuple(s0)}
    stack = [tuple(s0)]
    while stack:
        s = stack.pop()
        for u in range(n):
            if s[u] != 'I':
                continue
            nxt = []
            if gamma * nw[u] > 0:
                t = list(s)
                t[u] = 'R' if model == 'SIR' else 'S'
                nxt.append(tuple(t))
            for v in nbrs[u]:
                if s[v] == 'S' and tau * ew[(u, v)] > 0:
                    t = list(s)
                    t[v] = 'I'
                    nxt.append(tuple(t))
            for t in nxt:
                if t not in seen:
                    seen.add(t)
                    stack.append(t)
    return seen
