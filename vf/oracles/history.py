"""Independent evaluators over node histories / transmission logs (shared by C09, C10)."""
import bisect


def status_at(ts, ss, t):
    """status of the latest change at or before t (histories are (times, statuses))."""
    k = bisect.bisect_right(list(ts), t)
    if k == 0:
        return None
    return ss[k - 1]


def status_before(ts, ss, t):
    k = bisect.bisect_left(list(ts), t)
    if k == 0:
        return None
    return ss[k - 1]


def changes(ts, ss):
    return [(ts[k], ss[k - 1], ss[k]) for k in range(1, len(ts))]


def summary_from_histories(hist, nodes, statuses):
    """-> (times sorted, {status: counts}) computed independently; rows keyed by distinct time."""
    times = sorted({t for u in nodes for t in hist[u][0]})
    out = {s: [] for s in statuses}
    for t in times:
        cnt = {s: 0 for s in statuses}
        for u in nodes:
            st = status_at(hist[u][0], hist[u][1], t)
            if st in cnt:
                cnt[st] += 1
        for s in statuses:
            out[s].append(cnt[s])
    return times, out


def merge_equal_times(t, cols):
    """arrays -> rows keyed by distinct time (last row of each run of equal times)."""
    T, C = [], [[] for _ in cols]
    for k in range(len(t)):
        if k + 1 < len(t) and t[k + 1] == t[k]:
            continue
        T.append(t[k])
        for j, c in enumerate(cols):
            C[j].append(c[k])
    return T, C
