"""Independent percolation oracles: Dijkstra with the `delay <= duration` rule, BFS generations, reachability, Tarjan SCC."""
import heapq

INF = float('inf')


def kept_arcs(nodes, nbrs, duration, delay, removed=()):
    rem = set(removed)
    arcs = {}
    for u in nodes:
        if u in rem:
            continue
        for v in nbrs[u]:
            if v in rem or v == u:
                continue
            d = delay[(u, v)]
            if d <= duration[u]:
                arcs[(u, v)] = d
    return arcs


def dijkstra(nodes, arcs, sources, start=0.0):
    """arcs {(u,v): w>=0}.  returns dist dict (inf when unreachable) and preds[v] = set of u with dist[u]+w == dist[v] < inf."""
    out = {u: [] for u in nodes}
    for (u, v), w in arcs.items():
        out[u].append((v, w))
    dist = {u: INF for u in nodes}
    heap = []
    for k, s in enumerate(sources):
        dist[s] = start
        heap.append((start, k, s))
    heapq.heapify(heap)
    cnt = len(heap)
    done = set()
    while heap:
        d, _, u = heapq.heappop(heap)
        if u in done:
            continue
        done.add(u)
        for v, w in out[u]:
            nd = d + w
            if nd < dist[v]:
                dist[v] = nd
                cnt += 1
                heapq.heappush(heap, (nd, cnt, v))
    preds = {v: set() for v in nodes}
    for (u, v), w in arcs.items():
        if dist[v] < INF and dist[u] + w == dist[v] and v not in sources:
            preds[v].add(u)
    return dist, preds


def bfs_levels(nodes, arcs, sources):
    out = {u: [] for u in nodes}
    for (u, v) in arcs:
        out[u].append(v)
    level = {s: 0 for s in sources}
    frontier = list(sources)
    while frontier:
        nxt = []
        for u in frontier:
            for v in out[u]:
                if v not in level:
                    level[v] = level[u] + 1
                    nxt.append(v)
        frontier = nxt
    return level


def reach(nodes, arcs, sources, reverse=False):
    out = {u: [] for u in nodes}
    for (u, v) in arcs:
        if reverse:
            out[v].append(u)
        else:
            out[u].append(v)
    seen = set(sources)
    stack = list(sources)
    while stack:
        u = stack.pop()
        for v in out[u]:
            if v not in seen:
                seen.add(v)
                stack.append(v)
    return seen


def tarjan_scc(nodes, arcs):
    out = {u: [] for u in nodes}
    for (u, v) in arcs:
        out[u].append(v)
    index, low, onstack, stack, comps = {}, {}, set(), [], []
    counter = [0]
    for root in nodes:
        if root in index:
            continue
        work = [(root, 0)]
        while work:
            u, i = work.pop()
            if i == 0:
                index[u] = low[u] = counter[0]
                counter[0] += 1
                stack.append(u)
                onstack.add(u)
            recurse = False
            nb = out[u]
            while i < len(nb):
                v = nb[i]
                i += 1
                if v not in index:
                    work.append((u, i))
                    work.append((v, 0))
                    recurse = True
                    break
                elif v in onstack:
                    low[u] = min(low[u], index[v])
            if recurse:
                continue
            if low[u] == index[u]:
                comp = []
                while True:
                    w = stack.pop()
                    onstack.discard(w)
                    comp.append(w)
                    if w == u:
                        break
                comps.append(comp)
            if work:
                p = work[-1][0]
                low[p] = min(low[p], low[u])
    return comps
