"""Exact Reed-Frost (discrete SIR) and discrete SIS chains on a graph: distribution over count trajectories."""
import itertools


def _next_sets(nbrs, S, I, p):
    """distribution over the set J of newly infected nodes: each v in S with k_v infectious neighbours joins w.p. 1-(1-p)^k."""
    cand = []
    for v in sorted(S):
        k = sum(1 for u in nbrs[v] if u in I)
        if k:
            cand.append((v, 1 - (1 - p) ** k))
    out = [(frozenset(), 1.0)]
    for v, q in cand:
        nxt = []
        for J, pr in out:
            if q > 0:
                nxt.append((J | {v}, pr * q))
            if q < 1:
                nxt.append((J, pr * (1 - q)))
        out = nxt
    return out


def sir_trajectory_law(n, edges, p, I0, R0, tmin, tmax):
    """dict: trajectory (tuple of (t,S,I,R) rows as produced by discrete_SIR arrays) -> probability"""
    nbrs = {i: set() for i in range(n)}
    for u, v in edges:
        nbrs[u].add(v)
        nbrs[v].add(u)
    law = {}
    S0 = frozenset(range(n)) - frozenset(I0) - frozenset(R0)

    def rec(S, I, nR, t, rows, pr):
        rows = rows + ((t, len(S), len(I), nR),)
        if not I or not (t < tmax):
            law[rows] = law.get(rows, 0.0) + pr
            return
        for J, q in _next_sets(nbrs, S, I, p):
            rec(S - J, J, nR + len(I), t + 1, rows, pr * q)
    rec(S0, frozenset(I0), len(R0), tmin, (), 1.0)
    return law


def sis_trajectory_law(n, edges, p, I0, tmin, tmax):
    nbrs = {i: set() for i in range(n)}
    for u, v in edges:
        nbrs[u].add(v)
        nbrs[v].add(u)
    law = {}
    allv = frozenset(range(n))

    def rec(I, t, rows, pr):
        rows = rows + ((t, n - len(I), len(I)),)
        if not I or not (t < tmax):
            law[rows] = law.get(rows, 0.0) + pr
            return
        for J, q in _next_sets(nbrs, allv - I, I, p):
            rec(J, t + 1, rows, pr * q)
    rec(frozenset(I0), tmin, (), 1.0)
    return law
