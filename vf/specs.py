"""Model specifications for Gillespie_simple_contagion (spontaneous graph H, neighbour-induced graph J)."""
import random
import networkx as nx

SPEC_NAMES = ['SI', 'SIS', 'SIR', 'SIRS', 'SEIR', 'SIV', 'compete', 'coop', 'voter', 'same_inducer', 'multi_out', 'intstat',
              'tuplestat']


def spec(name, r=None, rates=None):
    """-> dict(H_edges=[(A,B,rate)], J_edges=[((A,B),(A,C),rate)], statuses=[...])  statuses in a fixed order."""
    r = r or random.Random(0)

    def rt():
        return r.choice([0.3, 0.7, 1.0, 1.6, 2.5])
    if name == 'SI':
        return {'H': [], 'J': [(('I', 'S'), ('I', 'I'), rt())], 'statuses': ['S', 'I']}
    if name == 'SIS':
        return {'H': [('I', 'S', rt())], 'J': [(('I', 'S'), ('I', 'I'), rt())], 'statuses': ['S', 'I']}
    if name == 'SIR':
        return {'H': [('I', 'R', rt())], 'J': [(('I', 'S'), ('I', 'I'), rt())], 'statuses': ['S', 'I', 'R']}
    if name == 'SIRS':
        return {'H': [('I', 'R', rt()), ('R', 'S', rt())], 'J': [(('I', 'S'), ('I', 'I'), rt())], 'statuses': ['S', 'I', 'R']}
    if name == 'SEIR':
        return {'H': [('E', 'I', rt()), ('I', 'R', rt())], 'J': [(('I', 'S'), ('I', 'E'), rt())], 'statuses': ['S', 'E', 'I', 'R']}
    if name == 'SIV':
        return {'H': [('I', 'R', rt()), ('S', 'V', 0.3 * rt())], 'J': [(('I', 'S'), ('I', 'I'), rt())], 'statuses': ['S', 'I', 'R', 'V']}
    if name == 'compete':
        return {'H': [('A', 'S', rt()), ('B', 'S', rt())],
                'J': [(('A', 'S'), ('A', 'A'), rt()), (('B', 'S'), ('B', 'B'), rt())], 'statuses': ['S', 'A', 'B']}
    if name == 'coop':
        # two cooperating SIR-like diseases, statuses are two-letter strings
        H = [('IS', 'RS', rt()), ('SI', 'SR', rt()), ('II', 'RI', rt()), ('II', 'IR', rt()), ('IR', 'RR', rt()), ('RI', 'RR', rt())]
        J = []
        t1, t2, f = rt(), rt(), 3.0
        for src in ('IS', 'II', 'IR'):
            J.append(((src, 'SS'), (src, 'IS'), t1))
            J.append(((src, 'SI'), (src, 'II'), t1 * f))
            J.append(((src, 'SR'), (src, 'IR'), t1))
        for src in ('SI', 'II', 'RI'):
            J.append(((src, 'SS'), (src, 'SI'), t2))
            J.append(((src, 'IS'), (src, 'II'), t2 * f))
            J.append(((src, 'RS'), (src, 'RI'), t2))
        return {'H': H, 'J': J, 'statuses': ['SS', 'IS', 'SI', 'II', 'RS', 'SR', 'IR', 'RI', 'RR']}
    if name == 'voter':
        return {'H': [], 'J': [(('A', 'B'), ('A', 'A'), rt()), (('B', 'A'), ('B', 'B'), rt())], 'statuses': ['A', 'B']}
    if name == 'same_inducer':
        return {'H': [('R', 'S', rt())], 'J': [(('I', 'S'), ('I', 'I'), rt()), (('I', 'I'), ('I', 'R'), rt())], 'statuses': ['S', 'I', 'R']}
    if name == 'multi_out':
        return {'H': [('I', 'R', rt()), ('I', 'S', rt()), ('R', 'S', 0.0)],
                'J': [(('I', 'S'), ('I', 'I'), rt()), (('I', 'S'), ('I', 'R'), rt()), (('R', 'S'), ('R', 'I'), rt())], 'statuses': ['S', 'I', 'R']}
    if name == 'intstat':
        return {'H': [(1, 2, rt()), (2, 0, rt())], 'J': [((1, 0), (1, 1), rt())], 'statuses': [0, 1, 2]}
    if name == 'tuplestat':
        a, b, c = ('s', 0), ('i', 1), ('r', 2)
        return {'H': [(b, c, rt())], 'J': [((b, a), (b, b), rt())], 'statuses': [a, b, c]}
    raise ValueError(name)


def random_spec(r):
    k = r.randint(2, 4)
    sts = ['A', 'B', 'C', 'D'][:k]
    H, J = [], []
    for a in sts:
        for c in sts:
            if a != c and r.random() < 0.3:
                H.append((a, c, r.choice([0.0, 0.4, 1.0, 2.0])))
    for x in sts:
        for a in sts:
            for c in sts:
                if a != c and r.random() < 0.2:
                    J.append(((x, a), (x, c), r.choice([0.0, 0.5, 1.0, 1.5])))
    if not H and not J:
        J.append(((sts[0], sts[1]), (sts[0], sts[0]), 1.0))
    return {'H': H, 'J': J, 'statuses': sts}


def _tup(x):
    return tuple(_tup(y) for y in x) if isinstance(x, list) else x


def build_spec_graphs(sp, weight_form=None, G=None, r=None, directed=False, spont_boost=1.0, nbr_boost=1.0):
    """weight_form: None | 'label' | 'function'.  Returns (H, J, weight oracle dict) where the oracle gives the harness's own
    view of node / edge weights: node_w[(A,B)][node], edge_w[((A,B),(A,C))][(u,v)] (1.0 when unweighted)."""
    H, J = nx.DiGraph(), nx.DiGraph()
    for s in sp['statuses']:
        pass
    node_w, edge_w = {}, {}
    calls = {'spont': [], 'nbr': []}
    for kH, (a, c, rate) in enumerate(sp['H']):
        a, c = _tup(a), _tup(c)
        fk = [1.0, 0.4, 2.5, 1.7][kH % 4]        # every transition has its own rate function
        if weight_form == 'label':
            H.add_edge(a, c, rate=rate, weight_label='nw_')
            node_w[(a, c)] = {u: G.nodes[u]['nw_'] for u in G}
        elif weight_form == 'function':
            tbl = {u: G.nodes[u]['nw_'] * spont_boost * fk for u in G}

            def rf(Gx, node, _tbl=tbl, boost=1.0, **kw):
                calls['spont'].append((node, dict(kw, boost=boost)))
                return _tbl[node] / spont_boost * boost
            H.add_edge(a, c, rate=rate, rate_function=rf)
            node_w[(a, c)] = tbl
        else:
            H.add_edge(a, c, rate=rate)
            node_w[(a, c)] = None
    for kJ, (ab, ac, rate) in enumerate(sp['J']):
        ab, ac = _tup(ab), _tup(ac)
        gk = [1.0, 0.6, 1.9][kJ % 3]
        if weight_form == 'label':
            J.add_edge(ab, ac, rate=rate, weight_label='ew_')
            w = {}
            for u, v in G.edges():
                w[(u, v)] = G.edges[u, v]['ew_']
                if not directed:
                    w[(v, u)] = G.edges[u, v]['ew_']
            edge_w[(ab, ac)] = w
        elif weight_form == 'function':
            # a user rate function may be asymmetric in (source, target) even on an undirected graph:
            # edge factor x infectiousness of the source x susceptibility of the target
            w = {}
            for u, v in G.edges():
                base = G.edges[u, v]['ew_']
                w[(u, v)] = gk * nbr_boost * base * G.nodes[u]['nw_'] / (0.25 + G.nodes[v]['nw_'])
                if not directed:
                    w[(v, u)] = gk * nbr_boost * base * G.nodes[v]['nw_'] / (0.25 + G.nodes[u]['nw_'])

            def rf2(Gx, source, target, _w=w, boost=1.0, **kw):
                calls['nbr'].append((source, target, dict(kw, boost=boost)))
                return _w[(source, target)] / nbr_boost * boost
            J.add_edge(ab, ac, rate=rate, rate_function=rf2)
            edge_w[(ab, ac)] = w
        else:
            J.add_edge(ab, ac, rate=rate)
            edge_w[(ab, ac)] = None
    return H, J, node_w, edge_w, calls
