"""Registry of call templates for the simulators: turns a JSON-able generic case into a call of the real function.

case keys: sim, graph(desc incl. labels), wm, tau, gamma, p, I0 (index list) / I0_form / rho, R0, tmin, tmax ('inf' or number),
           full (bool), seed, rule (for user-rule simulators), spec (simple contagion), kw_style
"""
import random, math
import numpy as np
import networkx as nx
from . import gen, simcase, specs

SIR_SIMS = ['discrete_SIR', 'basic_discrete_SIR', 'percolation_based_discrete_SIR', 'fast_SIR', 'fast_nonMarkov_SIR', 'Gillespie_SIR']
SIS_SIMS = ['basic_discrete_SIS', 'fast_SIS', 'fast_nonMarkov_SIS', 'Gillespie_SIS']
GENERIC_SIMS = ['Gillespie_simple_contagion', 'Gillespie_complex_contagion']
ALL_SIMS = SIR_SIMS + SIS_SIMS + GENERIC_SIMS
DISCRETE = {'discrete_SIR', 'basic_discrete_SIR', 'percolation_based_discrete_SIR', 'basic_discrete_SIS'}
WEIGHTED = {'fast_SIR', 'Gillespie_SIR', 'fast_SIS', 'Gillespie_SIS'}
I0_FORMS = ['list', 'tuple', 'set', 'range', 'ndarray', 'single', 'frozenset', 'dictkeys']


def tmax_of(case):
    return float('inf') if case['tmax'] == 'inf' else case['tmax']


def form_initial(nodes_idx, lab, form, n):
    """returns the container in the requested form (or None if that form cannot express the set)."""
    labs = [lab(i) for i in nodes_idx]
    if form in ('tuple', 'frozenset', 'range'):
        # a hashable container that is itself a node of the graph means that single node ("if it is a node, it is treated as a node")
        cont = tuple(labs) if form == 'tuple' else (frozenset(labs) if form == 'frozenset' else None)
        if cont is not None and any(cont == lab(i) for i in range(n)):
            return None
    if form == 'list':
        return list(labs)
    if form == 'tuple':
        return tuple(labs)
    if form == 'set':
        return set(labs)
    if form == 'frozenset':
        return frozenset(labs)
    if form == 'dictkeys':
        return {x: True for x in labs}.keys()
    if form == 'iterator':
        return iter(list(labs))
    if form == 'generator':
        return (x for x in list(labs))
    if form == 'single':
        return labs[0] if len(labs) == 1 else None
    if form == 'range':
        if all(isinstance(x, int) for x in labs) and labs and labs == list(range(labs[0], labs[-1] + 1)):
            return range(labs[0], labs[-1] + 1)   # same iteration order as the list form
        return None
    if form == 'ndarray':
        if all(isinstance(x, int) for x in labs):
            return np.array(labs, dtype=int)
        return None
    raise ValueError(form)


# ---------------------------------------------------------------- user rules for the non-Markovian simulators
def make_sir_rule(rule, G):
    """rule: {'kind': 'exp'|'const'|'unif', 'tau', 'gamma', 'form': 'sep'|'joint'}; randomness from the global `random`."""
    kind = rule['kind']
    tau, gamma = rule.get('tau', 1.0), rule.get('gamma', 1.0)
    zero = set(u for i, u in enumerate(G) if i % 3 == 0) if rule.get('zero_some') else ()

    def dur(u):
        if u in zero:
            return 0.0            # an infectious period of exactly zero: infected and recovered at the same instant
        if kind == 'exp':
            return random.expovariate(gamma) if gamma > 0 else float('inf')
        if kind == 'const':
            return rule.get('D', 1.0)
        return random.uniform(0.2, 2.0)

    def delay(u, v):
        if kind == 'exp':
            return random.expovariate(tau) if tau > 0 else float('inf')
        if kind == 'const':
            return random.uniform(0, 2 * rule.get('D', 1.0))
        return random.uniform(0.0, 3.0)
    if rule.get('form', 'sep') == 'sep':
        def ttf(u, v, scale=1.0):
            return scale * delay(u, v)

        def rtf(u, scale=1.0):
            return scale * dur(u)
        return dict(trans_time_fxn=ttf, rec_time_fxn=rtf, trans_time_args=(1.0,), rec_time_args=(1.0,))

    def joint(node, sus, scale=1.0):
        d = dur(node)
        return {v: scale * delay(node, v) for v in sus}, scale * d
    return dict(trans_and_rec_time_fxn=joint, trans_and_rec_time_args=(1.0,))


def make_sis_rule(rule, G):
    kind = rule['kind']
    tau, gamma = rule.get('tau', 1.0), rule.get('gamma', 1.0)
    index = {u: i for i, u in enumerate(G)}
    shared = {}
    zero = set(u for i, u in enumerate(G) if i % 3 == 0) if rule.get('zero_some') else ()

    def dur(u):
        if u in zero:
            return 0.0
        if kind == 'exp':
            return random.expovariate(gamma)
        if kind == 'const':
            return rule.get('D', 1.0)
        if kind == 'lattice':
            return 1 + (index[u] * 7 + 3) % 4          # whole days, different from node to node
        return random.uniform(0.2, 2.0)

    def delays(u, v, d):
        out = []
        if kind == 'lattice':
            # whole-day schedules kept by the user: the very same list object is handed out for every contact of u, every time
            if u not in shared:
                shared[u] = [k for k in (1, 2, 3) if (index[u] + k) % 3 != 0 and k < dur(u)]     # within u's own infectious period
            return shared[u]
        if kind == 'exp':
            if tau <= 0:
                return out
            t = random.expovariate(tau)
            while t < d:
                out.append(t)
                t += random.expovariate(tau)
        else:
            k = random.choice([0, 1, 1, 2, 3])
            out = sorted(random.uniform(0, d) for _ in range(k))
            out = [x for x in out if x < d]
        return out
    if rule.get('form', 'sep') == 'sep':
        def ttf(u, v, d, tag='x'):
            return delays(u, v, d)

        def rtf(u, tag='x'):
            return dur(u)
        return dict(trans_time_fxn=ttf, rec_time_fxn=rtf, trans_time_args=('x',), rec_time_args=('x',))

    def joint(node, nbrs, tag='x'):
        d = dur(node)
        return {v: delays(node, v, d) for v in nbrs}, d
    return dict(trans_and_rec_time_fxn=joint, trans_and_rec_time_args=('x',))


# ---------------------------------------------------------------- complex contagion models
def complex_model(name, params):
    """returns rate_function, transition_choice, get_influence_set for Gillespie_complex_contagion"""
    if name == 'sir':
        tau, gamma = params

        def rate(G, node, status, parameters):
            if status[node] == 'I':
                return gamma
            if status[node] == 'S':
                return tau * sum(1 for v in G.neighbors(node) if status[v] == 'I')
            return 0

        def choice(G, node, status, parameters):
            return 'I' if status[node] == 'S' else 'R'

        def infl(G, node, status, parameters):
            return list(G.neighbors(node))
        return rate, choice, infl, ['S', 'I', 'R'], {('S', 'I'), ('I', 'R')}
    if name == 'sis':
        tau, gamma = params

        def rate(G, node, status, parameters):
            if status[node] == 'I':
                return gamma
            return tau * sum(1 for v in G.neighbors(node) if status[v] == 'I')

        def choice(G, node, status, parameters):
            return 'I' if status[node] == 'S' else 'S'

        def infl(G, node, status, parameters):
            return list(G.neighbors(node))
        return rate, choice, infl, ['S', 'I'], {('S', 'I'), ('I', 'S')}
    if name == 'threshold':
        r, gamma = params

        def rate(G, node, status, parameters):
            if status[node] == 'I':
                return gamma
            if status[node] == 'S':
                k = sum(1 for v in G.neighbors(node) if status[v] == 'I')
                return r if k >= 2 else (0.05 * r if k == 1 else 0)
            return 0

        def choice(G, node, status, parameters):
            return 'I' if status[node] == 'S' else 'R'

        def infl(G, node, status, parameters):
            return list(G.neighbors(node))
        return rate, choice, infl, ['S', 'I', 'R'], {('S', 'I'), ('I', 'R')}
    if name == 'lazy':
        # the chooser may answer with the node's current status (a model with 'failed attempts'): a null event - the clock runs, nothing changes.
        # Deterministic and draw-free, so both return modes see the same run.  (Same model as C15's 'lazy'.)
        tau, gamma = params

        def rate(G, node, status, parameters):
            if status[node] == 'I':
                return gamma
            return tau * sum(1 for v in G.neighbors(node) if status[v] == 'I')

        def choice(G, node, status, parameters):
            k = sum(1 for v in G.neighbors(node) if status[v] == 'I')
            if status[node] == 'I':
                return 'S' if k % 2 == 0 else 'I'
            return 'I' if k != 2 else 'S'

        def infl(G, node, status, parameters):
            return list(G.neighbors(node))
        return rate, choice, infl, ['S', 'I'], {('S', 'I'), ('I', 'S'), ('S', 'S'), ('I', 'I')}
    raise ValueError(name)


# ---------------------------------------------------------------- the call builder
class Call(object):
    pass


def build_call(case, _built=None):
    import EoN
    c = Call()
    sim = case['sim']
    if _built is not None:
        G, lab = _built
    elif case.get('prehistory'):
        # the simulator has been used before on this very graph object, which was then edited in place
        def warmup(G0, lab0):
            c0 = build_call(dict(case, prehistory=None, graph=dict(case['graph'], edges=case['prehistory']['prev_edges'])), _built=(G0, lab0))
            simcase.seed_all(case['seed'] + 99)
            c0.f(*c0.args, **c0.kw)
        G, lab = gen.build_graph_with_history(case['graph'], case['prehistory'], warmup)
    else:
        G, lab = gen.build_graph(case['graph'])
    n = case['graph']['n']
    c.G, c.lab, c.n, c.sim = G, lab, n, sim
    c.tmin, c.tmax = case.get('tmin', 0), tmax_of(case)
    unit = case.get('time_unit_scaled') if (sim in WEIGHTED and c.tmin == 0) else None
    if unit and c.tmax != float('inf') and c.tmax != 0:
        c.tmax = c.tmin + (c.tmax - c.tmin) / unit
    c.full = bool(case.get('full'))
    c.model = 'SIR' if sim in SIR_SIMS else ('SIS' if sim in SIS_SIMS else 'generic')
    c.I0 = [lab(i) for i in case['I0']] if case.get('I0') is not None else None
    c.R0 = [lab(i) for i in case.get('R0') or []]
    kw = {}
    args = [G]
    if sim in ('fast_SIR', 'Gillespie_SIR', 'fast_SIS', 'Gillespie_SIS'):
        args += [case['tau'] * (unit or 1), case['gamma'] * (unit or 1)]
        if case.get('wm', 'none') in ('edge', 'both'):
            kw['transmission_weight'] = simcase.TW
        if case.get('wm', 'none') in ('node', 'both'):
            kw['recovery_weight'] = simcase.RW
    elif sim in ('basic_discrete_SIR', 'percolation_based_discrete_SIR', 'basic_discrete_SIS'):
        args += [case['p']]
    elif sim == 'discrete_SIR':
        kw['args'] = (case['p'],)
        if case.get('stay'):
            # user recovery test (a public keyword of discrete_SIR): node i stays infectious for about stay[i] steps
            # (stateless, so that the same call object can be used repeatedly: recovery with probability 1/stay[i] per step, drawn from the
            # seeded global generator)
            stay = {lab(i): k for i, k in enumerate(case['stay'])}

            def test_recovery(u, *a):
                return stay[u] <= 1 or random.random() < 1.0 / stay[u]
            kw['test_recovery'] = test_recovery
    elif sim == 'fast_nonMarkov_SIR':
        kw.update(make_sir_rule(case['rule'], G))
    elif sim == 'fast_nonMarkov_SIS':
        kw.update(make_sis_rule(case['rule'], G))
    elif sim == 'Gillespie_simple_contagion':
        sp = case['spec']
        sb, nb = case.get('spont_boost', 1.0), case.get('nbr_boost', 1.0)
        H, J, node_w, edge_w, calls = specs.build_spec_graphs(sp, case.get('weight_form'), G, directed=G.is_directed(), spont_boost=sb, nbr_boost=nb)
        if case.get('weight_form') == 'function' and (sb != 1.0 or nb != 1.0):
            kw['spont_kwargs'] = {'boost': sb}
            kw['nbr_kwargs'] = {'boost': nb}
        r = random.Random(case['seed'] + 17)
        sts = [specs._tup(s) for s in sp['statuses']]
        ic_idx = case.get('IC')
        IC = {lab(i): sts[ic_idx[i]] for i in range(n)}
        rs = [sts[k] for k in case.get('return_idx', range(len(sts)))]
        args += [H, J, _ic_argument(IC, sts, case), rs]
        c.H, c.J, c.IC, c.return_statuses, c.statuses = H, J, IC, rs, sts
        c.node_w, c.edge_w = node_w, edge_w
    elif sim == 'Gillespie_complex_contagion':
        rate, choice, infl, sts, moves = complex_model(case['cmodel'], case['cparams'])
        ic_idx = case.get('IC')
        IC = {lab(i): sts[ic_idx[i]] for i in range(n)}
        args += [rate, choice, infl, _ic_argument(IC, sts, case), sts]
        c.IC, c.return_statuses, c.statuses, c.moves = IC, sts, sts, moves
    if c.model != 'generic':
        if case.get('rho') is not None:
            kw['rho'] = case['rho']
        elif c.I0 is not None:
            cont = form_initial(case['I0'], lab, case.get('I0_form', 'list'), n)
            if cont is None:
                cont = list(c.I0)
            kw['initial_infecteds'] = cont
        if c.model == 'SIR' and (c.R0 or case.get('R0_explicit_empty')):
            kw['initial_recovereds'] = form_initial(case.get('R0') or [], lab, case.get('R0_form', 'list'), n)
            if kw['initial_recovereds'] is None:
                kw['initial_recovereds'] = list(c.R0)
    kw['tmin'] = c.tmin
    kw['tmax'] = c.tmax
    if c.full:
        kw['return_full_data'] = True
    if case.get('sim_kwargs') == 'tex':
        kw['sim_kwargs'] = {'tex': False}
    elif case.get('sim_kwargs') == 'pos':
        kw['sim_kwargs'] = {'pos': {u: (float(i), float(i * i % 3)) for i, u in enumerate(G)}, 'tex': True}
    c.f = getattr(EoN, sim)
    c.args, c.kw = args, kw
    return c


def _ic_argument(IC, sts, case):
    """the IC mapping handed to the simulator.  'IC[node] returns the status of node': a mapping prepared for a larger population (the
    whole network while only a component / the unvaccinated part is simulated) has entries for keys that are not nodes of G."""
    if not case.get('ic_extra'):
        return IC
    arg = dict(IC)
    for k, extra in enumerate(['__not_in_G__', ('ghost', 7), -987654, 'zz_other']):
        if extra not in arg:
            arg[extra] = sts[(k + 1) % len(sts)]
    return arg


def random_sim_case(r, sim, nmax=14, tmaxes=None):
    """a random but valid generic case for simulator `sim`"""
    desc = gen.random_graph(r, 1, nmax)
    desc['labels'] = r.choice(gen.LABEL_SCHEMES)
    n = desc['n']
    case = {'sim': sim, 'graph': desc, 'seed': r.randrange(2 ** 40)}
    model = 'SIR' if sim in SIR_SIMS else ('SIS' if sim in SIS_SIMS else 'generic')
    case['tmin'] = r.choice([0, 0, -3, 2.5, 1])
    disc = sim in DISCRETE
    if disc:
        case['tmax'] = r.choice(['inf', case['tmin'] + 1, case['tmin'] + 3, case['tmin'] + 10, case['tmin'] + 2.5]) if model == 'SIR' \
            else r.choice([case['tmin'] + 1, case['tmin'] + 4, case['tmin'] + 12, case['tmin'] + 2.5])
        case['p'] = r.choice([0.0, 0.15, 0.4, 0.75, 1.0])
    else:
        if model == 'SIR' or sim in GENERIC_SIMS:
            case['tmax'] = r.choice(['inf', 'inf', case['tmin'] + 0.3, case['tmin'] + 1.5, case['tmin'] + 6]) if model == 'SIR' \
                else r.choice([case['tmin'] + 0.3, case['tmin'] + 1.5, case['tmin'] + 5])
        else:
            case['tmax'] = r.choice([case['tmin'] + 0.3, case['tmin'] + 1.5, case['tmin'] + 5])
    if model != 'generic':
        k = r.choice([1, 1, 2, 3, n])
        k = max(1, min(n, k))
        case['I0'] = sorted(r.sample(range(n), k))
        lab_scheme = desc['labels']
        forms = [f for f in I0_FORMS if not (f in ('tuple', 'ndarray') and lab_scheme in gen.CONTAINER_LIKE)]
        case['I0_form'] = r.choice(forms)
        rest = [i for i in range(n) if i not in case['I0']]
        if model == 'SIR' and rest and r.random() < 0.45:
            case['R0'] = sorted(r.sample(rest, r.randint(1, min(3, len(rest)))))
            case['R0_form'] = r.choice(['list', 'set', 'tuple'] if lab_scheme not in gen.CONTAINER_LIKE else ['list', 'set'])
            if sim in ('fast_SIR', 'fast_nonMarkov_SIR') and r.random() < 0.3:
                # documented as "iterable of nodes": a one-shot iterator (generator, G.neighbors(x)) is an iterable
                case['R0_form'] = r.choice(['iterator', 'generator'])
            if sim in ('discrete_SIR', 'basic_discrete_SIR', 'percolation_based_discrete_SIR') and r.random() < 0.35:
                # these three document initial_recovereds "as for initial_infecteds": a single node is allowed
                case['R0'] = case['R0'][:1]
                case['R0_form'] = 'single'
        else:
            case['R0'] = []
            if model == 'SIR' and r.random() < 0.2:
                case['R0_explicit_empty'] = True       # initial_recovereds=[] passed explicitly
    if sim in WEIGHTED:
        m = simcase.make_markov_case(r, desc)
        case['graph'] = m['graph']
        case.update({'wm': m['wm'], 'tau': m['tau'], 'gamma': m['gamma']})
    if sim in ('fast_nonMarkov_SIR', 'fast_nonMarkov_SIS'):
        case['rule'] = {'kind': r.choice(['exp', 'const', 'unif'] + (['lattice'] if sim == 'fast_nonMarkov_SIS' else [])), 'tau': r.choice([0.5, 1.0, 2.5]),
                        'gamma': r.choice([0.5, 1.0, 2.0]), 'D': r.choice([0.5, 1.0]), 'form': r.choice(['sep', 'joint'])}
    if sim == 'Gillespie_simple_contagion':
        name = r.choice(specs.SPEC_NAMES + ['random'])
        sp = specs.random_spec(r) if name == 'random' else specs.spec(name, r)
        case['spec'] = sp
        case['spec_name'] = name
        k = len(sp['statuses'])
        case['IC'] = [r.randrange(k) if r.random() < 0.5 else r.choice([0, min(1, k - 1)]) for _ in range(n)]
        case['return_idx'] = list(range(k))
        wf = r.choice([None, None, 'label', 'function'])
        case['weight_form'] = wf
        if wf == 'function' and r.random() < 0.6:
            case['spont_boost'] = r.choice([0.5, 1.5, 3.0])
            case['nbr_boost'] = r.choice([0.4, 2.0])
        if wf:
            g = dict(case['graph'])
            g['ew'] = {'ew_': gen.weights(r, len(g['edges']), r.choice(['dyadic', 'nondyadic', 'wide']))}
            g['nw'] = {'nw_': gen.weights(r, n, r.choice(['dyadic', 'nondyadic']))}
            case['graph'] = g
    if sim == 'Gillespie_simple_contagion' and r.random() < 0.3:
        # directed contact network (documented for this simulator), with one-way and reciprocated arcs
        g = dict(case['graph'])
        d = gen.random_digraph(r, 1, 10)
        g['n'], g['edges'], g['directed'] = d['n'], d['edges'], True
        g.pop('ew', None)
        g.pop('nw', None)
        if case.get('weight_form'):
            g['ew'] = {'ew_': gen.weights(r, len(g['edges']), r.choice(['dyadic', 'nondyadic']))}
            g['nw'] = {'nw_': gen.weights(r, g['n'], 'nondyadic')}
        case['graph'] = g
        n = g['n']
        case['IC'] = [r.randrange(len(case['spec']['statuses'])) for _ in range(n)]
    if sim == 'Gillespie_complex_contagion':
        case['cmodel'] = r.choice(['sir', 'sis', 'threshold'])
        case['cparams'] = [r.choice([0.5, 1.0, 2.0]), r.choice([0.5, 1.0, 0.3])]
        k = 3 if case['cmodel'] != 'sis' else 2
        case['IC'] = [r.choice([0, 0, 1]) for _ in range(n)]
        if case['cmodel'] == 'sis' and case['tmax'] == 'inf':
            case['tmax'] = case['tmin'] + 4
    if sim in GENERIC_SIMS and r.random() < 0.25:
        case['ic_extra'] = True
    if sim == 'discrete_SIR' and r.random() < 0.3:
        case['stay'] = [r.choice([1, 1, 2, 3]) for _ in range(case['graph']['n'])]
    if r.random() < 0.12:
        ph = gen.make_prehistory(r, case['graph'])
        if ph:
            case['prehistory'] = ph
    if r.random() < 0.25:
        case['sim_kwargs'] = r.choice(['tex', 'pos'])       # keyword arguments for the Simulation_Investigation object (ignored without full data)
    if sim == 'Gillespie_simple_contagion' and case['tmax'] == 'inf':
        case['tmax'] = case['tmin'] + 4      # generic specs need not die out
    if case['tmin'] < 0 and r.random() < 0.35:
        case['tmax'] = r.choice([0, 0.0])    # a horizon of exactly zero (falsy) after a negative start time
    if sim in WEIGHTED and case['tmin'] == 0 and r.random() < 0.12:
        # the same epidemic in another time unit (per-second instead of per-year rates): all rates tiny, or large
        # (applied when the call is built, so that a check that sets its own horizon afterwards still gets it in the scaled unit)
        case['time_unit_scaled'] = r.choice([1e-9, 1e-13, 1e6])
    return case
