"""C05 - requested initial conditions are what the simulation starts from.

kinds
  start   contract post-conditions (row 0, statuses at tmin, recovered nodes untouched) for every SIR/SIS simulator x argument form
  forms   metamorphic: order-preserving container forms (list/tuple/range/ndarray/dict keys/single node) give identical output for equal seeds
  rho     rho selects int(round(N*rho)) distinct nodes of G
  both    rho together with initial_infecteds is rejected with EoNError (incl. the falsy node 0 / empty containers reported separately)
  wrap    wrappers vs their definition under one seed (basic_discrete_SIR vs discrete_SIR default rule; percolation_based vs definition)
"""
import random
import numpy as np
from .. import gen, simreg, simcase, contracts
from ..runner import new_result, viol, bump, case_seed
from . import c04

PID = 'C05'
LEVEL = 'exploration'
RULE = ('cases: 10 SIR/SIS simulators x {arrays, full} x container forms {list,tuple,set,frozenset,range,ndarray,dict keys,single node} '
        'x initially recovered sets x tmin in {0,-3,2.5,1} x random/boundary graphs n<=14 with int/str/tuple/mixed labels; rho grid; '
        'rho+initial_infecteds rejection; wrapper differentials.  Non-trivial = graph has >=2 nodes and the request leaves at least one '
        'node in a different class; distinct = (kind, simulator, mode, form, |I0|, |R0|, graph iso key).')
ASSUMPTIONS = ['initial nodes exist in G, are distinct, and infected/recovered sets are disjoint (documented domain)',
               'a tuple of nodes is not itself a node of G (ambiguous by design of the API)']
BUDGET = {'quick': 150, 'thorough': 1200}
CHUNK = {'quick': 40, 'thorough': 200}
SIMS = simreg.SIR_SIMS + simreg.SIS_SIMS
REQUIRED = ['get_infected_nodes_checked', 'barrier_bounds_checked', 'barrier_cases_with_shielded_nodes', 'start_rows_checked', 'form_pairs_compared', 'rho_calls_checked', 'both_rejections_checked', 'both_rejections_with_initial_recovereds', 'wrapper_pairs_compared']
MINE = lambda pred: pred in c04.START_PREDS or pred == 'full_data_object_returned'


def gen_cases(tier, seed):
    n = {'quick': 18000, 'thorough': 500000}[tier]
    out = []
    kinds = ['start', 'start', 'start', 'forms', 'rho', 'both', 'wrap']
    # get_infected_nodes (the percolation shortcut to a final outbreak) takes the same initial sets: the initially recovered nodes are
    # recovered from the start, so the outbreak stays within what the seeds reach without passing through them
    for j in range(400 if tier == 'quick' else 8000):
        cs = case_seed(seed, PID + 'gin', j)
        r = random.Random(cs)
        desc = gen.random_graph(r, 4, 14, kinds=['path', 'tree', 'grid', 'gnp_sparse', 'cycle', 'two_comp', 'gnp'])
        desc['labels'] = r.choice(gen.LABEL_SCHEMES)
        nn = desc['n']
        I0 = r.sample(range(nn), r.randint(1, 2))
        rest = [i for i in range(nn) if i not in I0]
        out.append({'kind': 'gin', 'sim': 'get_infected_nodes', 'graph': desc, 'I0': I0, 'R0': r.sample(rest, r.randint(1, min(3, len(rest)))), 'seed': cs,
                    'tau': r.choice([1.0, 3.0, 10.0]), 'gamma': r.choice([0.0, 0.5, 1.0]), 'R0_form': r.choice(['list', 'set', 'single'])})
    for k in range(n):
        cs = case_seed(seed, PID, k)
        r = random.Random(cs)
        kind = kinds[k % len(kinds)]
        sim = SIMS[(k // len(kinds)) % len(SIMS)]
        if kind == 'wrap':
            sim = r.choice(['basic_discrete_SIR', 'percolation_based_discrete_SIR'])
        c = simreg.random_sim_case(r, sim)
        c['kind'] = kind
        c['full'] = r.random() < 0.5
        if kind == 'rho':
            c['rho'] = r.choice([0.0, 0.1, 0.25, 0.5, 0.49, 0.51, 0.75, 1.0, 1.0 / max(1, c['graph']['n'])])
            c['I0'] = None
            c['R0'] = []
        if kind == 'forms':
            c['I0'] = sorted(c['I0'])
        if kind == 'both':
            c['rho'] = r.choice([0.1, 0.5])
            c['both_form'] = r.choice(['list', 'single', 'single0', 'empty', 'set', 'tuple'])
        out.append(c)
    return out


def _cn(x):
    return repr(int(x)) if isinstance(x, np.integer) else repr(x)


def canon(call, out):
    """canonical, comparable form of a simulator result (numpy integer node objects compare equal to python ints)"""
    if call.full:
        if not hasattr(out, 'summary'):
            return ('not-a-full-data-object',)
        hist = {repr(u): (tuple(out.node_history(u)[0]), tuple(out.node_history(u)[1])) for u in call.G}
        try:
            tr = tuple((t, _cn(a), _cn(b)) for t, a, b in out.transmissions())
        except Exception:
            tr = None
        return (tuple(sorted(hist.items())), tr)
    return tuple(tuple(np.asarray(a).tolist()) for a in out)


def _call(call, seed):
    import EoN
    simcase.seed_all(seed)
    return getattr(EoN, call.sim)(*call.args, **call.kw)


def run_case(case):
    res = new_result()
    kind = case['kind']
    sim = case['sim']
    n = case['graph']['n']
    mode = 'full' if case.get('full') else 'arrays'
    if kind == 'gin':
        import EoN
        G, lab = gen.build_graph(case['graph'])
        I0 = [lab(i) for i in case['I0']]
        R0 = [lab(i) for i in case['R0']]
        r0arg = R0[0] if (case['R0_form'] == 'single' and len(R0) == 1) else (set(R0) if case['R0_form'] == 'set' else list(R0))
        simcase.seed_all(case['seed'])
        try:
            got = set(EoN.get_infected_nodes(G, case['tau'], case['gamma'], initial_infecteds=list(I0), initial_recovereds=r0arg))
        except Exception as e:
            viol(res, 'get_infected_nodes|exception:%s' % simcase.exc_key(e), {'err': repr(e)})
            return res
        blocked = set(R0)
        seen = set(I0)
        stack = list(seen)
        while stack:
            u = stack.pop()
            for v in G.neighbors(u):
                if v not in seen and v not in blocked:
                    seen.add(v)
                    stack.append(v)
        bump(res, 'get_infected_nodes_checked')
        if not set(I0) <= got or got & blocked or not got <= seen:
            viol(res, 'get_infected_nodes|initially_recovered_nodes_are_recovered_from_the_start', {'returned': sorted(map(repr, got))[:8], 'R0': sorted(map(repr, blocked)),
                                                                                                 'reachable_without_them': sorted(map(repr, seen))[:8]})
        if len(seen) < n - len(blocked):
            res['nontrivial'] = 'gin:%s:%s:%s' % (gen.iso_key(case['graph']), case['I0'], case['R0'])
            res['sample'] = {'kind': 'gin', 'graph': case['graph'], 'I0': case['I0'], 'R0': case['R0'], 'returned': len(got)}
        return res
    if kind == 'start':
        call, out, err = c04.run_monitored(case, res, MINE)
        if err is not None:
            viol(res, '%s|%s|%s|exception:%s' % (sim, mode + ('+R0' if case.get('R0') else ''), 'form=' + case.get('I0_form', '?'), simcase.exc_key(err)),
                 {'err': repr(err)})
            return res
        bump(res, 'start_rows_checked')
        if call.model == 'SIR' and call.R0 and call.I0 is not None and not case.get('full'):
            # "initially recovered nodes ... are never infected later", observable in the plain arrays: the epidemic is confined to what
            # the initially infected nodes can reach without passing through an initially recovered node
            G = call.G
            blocked = set(call.R0)
            seen = set(u for u in call.I0 if u not in blocked)
            stack = list(seen)
            while stack:
                u = stack.pop()
                for v in G.neighbors(u):
                    if v not in seen and v not in blocked:
                        seen.add(v)
                        stack.append(v)
            try:
                S_, R_ = [int(x) for x in out[1]], [int(x) for x in out[3]]
                bump(res, 'barrier_bounds_checked')
                if min(S_) < n - len(blocked) - len(seen) or max(R_) > len(blocked) + len(seen):
                    viol(res, '%s|arrays+R0|initially_recovered_infected_later' % sim, {'min_S': min(S_), 'max_R': max(R_), 'N': n, 'initially_recovered': len(blocked),
                                                                                       'reachable_without_them': len(seen)})
                if len(seen) < n - len(blocked):
                    bump(res, 'barrier_cases_with_shielded_nodes')
            except (TypeError, IndexError):
                pass
        if n >= 2:
            res['nontrivial'] = 'start:%s:%s:%s:%d:%d:%s' % (sim, mode, case.get('I0_form'), len(case['I0']), len(case.get('R0') or []), gen.iso_key(case['graph']))
            res['sample'] = {'kind': kind, 'sim': sim, 'mode': mode, 'form': case.get('I0_form'), 'I0': case['I0'], 'R0': case.get('R0'),
                             'tmin': case['tmin'], 'graph': case['graph']}
        return res
    if kind == 'forms':
        ref_case = dict(case)
        ref_case['I0_form'] = 'list'
        try:
            rc = simreg.build_call(ref_case)
            ref = canon(rc, _call(rc, case['seed']))
        except Exception as e:
            viol(res, '%s|%s|form=list|exception:%s' % (sim, mode, simcase.exc_key(e)), {'err': repr(e)})
            return res
        lab_scheme = case['graph'].get('labels', 'int')
        for form in ['tuple', 'range', 'ndarray', 'dictkeys', 'single', 'positional']:
            if form in ('tuple', 'ndarray') and lab_scheme in gen.CONTAINER_LIKE:
                continue
            cc = dict(case)
            cc['I0_form'] = 'list' if form == 'positional' else form
            call = simreg.build_call(cc)
            if form != 'positional' and simreg.form_initial(case['I0'], call.lab, form, n) is None:
                continue
            if form == 'positional':
                # initial_infecteds is the first parameter after the model parameters for every simulator but the user-rule ones
                import inspect
                params = list(inspect.signature(call.f).parameters)
                if params.index('initial_infecteds') != len(call.args):
                    continue
                call.args = call.args + [call.kw.pop('initial_infecteds')]
            try:
                got = canon(call, _call(call, case['seed']))
            except Exception as e:
                viol(res, '%s|%s|form=%s|exception:%s' % (sim, mode, form, simcase.exc_key(e)), {'err': repr(e), 'I0': case['I0']})
                continue
            bump(res, 'form_pairs_compared')
            if got != ref:
                viol(res, '%s|%s|form=%s|differs_from_list_form' % (sim, mode, form), {'I0': case['I0'], 'labels': lab_scheme})
        if n >= 2:
            res['nontrivial'] = 'forms:%s:%s:%d:%s' % (sim, mode, len(case['I0']), gen.iso_key(case['graph']))
            res['sample'] = {'kind': kind, 'sim': sim, 'I0': case['I0'], 'graph': case['graph']}
        return res
    if kind == 'rho':
        call = simreg.build_call(case)
        want = int(round(n * case['rho']))
        try:
            out = _call(call, case['seed'])
        except Exception as e:
            viol(res, '%s|%s|rho|exception:%s' % (sim, mode, simcase.exc_key(e)), {'err': repr(e), 'rho': case['rho'], 'N': n})
            return res
        bump(res, 'rho_calls_checked')
        if call.full and hasattr(out, 'get_statuses'):
            st = out.get_statuses(time=case['tmin'])
            inf = [u for u in call.G if st[u] == 'I']
            others = [u for u in call.G if st[u] not in ('I', 'S')]
            if len(inf) != want or others or set(st) != set(call.G):
                viol(res, '%s|full|rho|selected_count' % sim, {'rho': case['rho'], 'N': n, 'infected_at_tmin': len(inf), 'expected': want})
        else:
            I0 = int(np.asarray(out[2])[0])
            S0 = int(np.asarray(out[1])[0])
            if I0 != want or S0 != n - want:
                viol(res, '%s|arrays|rho|selected_count' % sim, {'rho': case['rho'], 'N': n, 'row0': [S0, I0], 'expected_I': want})
        if n >= 2 and 0 < want < n:
            res['nontrivial'] = 'rho:%s:%s:%d/%d' % (sim, mode, want, n)
            res['sample'] = {'kind': kind, 'sim': sim, 'rho': case['rho'], 'N': n, 'selected': want}
        return res
    if kind == 'both':
        import EoN
        call = simreg.build_call({k: v for k, v in case.items() if k != 'rho'})
        lab = call.lab
        bf = case['both_form']
        if bf == 'single0':
            if not call.G.has_node(0):
                return res
            val = 0
        elif bf == 'single':
            val = lab(case['I0'][0])
            if val == 0:
                bf = 'single0'
        elif bf == 'empty':
            val = []
        elif bf == 'set':
            val = set(call.I0)
        elif bf == 'tuple':
            if case['graph'].get('labels') in gen.CONTAINER_LIKE:
                return res
            val = tuple(call.I0)
        else:
            val = list(call.I0)
        kw = dict(call.kw)
        kw['initial_infecteds'] = val
        if case['seed'] % 2 or not kw.get('initial_recovereds'):
            kw.pop('initial_recovereds', None)
        else:
            # the request is just as contradictory when some nodes are also given as recovered
            bump(res, 'both_rejections_with_initial_recovereds')
        kw['rho'] = case['rho']
        bump(res, 'both_rejections_checked')
        try:
            simcase.seed_all(case['seed'])
            call.f(*call.args, **kw)
            rejected = False
        except EoN.EoNError:
            rejected = True
        except Exception as e:
            viol(res, '%s|both|%s|exception:%s' % (sim, bf, simcase.exc_key(e)), {'err': repr(e)})
            return res
        if not rejected:
            viol(res, '%s|both|%s|not_rejected' % (sim, 'falsy_container' if bf == 'empty' else ('falsy_node' if bf == 'single0' else 'any')),
                 {'initial_infecteds': repr(val), 'rho': case['rho']})
        res['nontrivial'] = 'both:%s:%s' % (sim, bf)
        res['sample'] = {'kind': kind, 'sim': sim, 'initial_infecteds': repr(val), 'rho': case['rho'], 'rejected': rejected}
        return res
    if kind == 'wrap':
        import EoN
        call = simreg.build_call(case)
        G = call.G
        kw = dict(call.kw)
        try:
            a = canon(call, _call(call, case['seed']))
        except Exception as e:
            viol(res, '%s|%s|wrapper|exception:%s' % (sim, mode, simcase.exc_key(e)), {'err': repr(e)})
            return res
        try:
            simcase.seed_all(case['seed'])
            if sim == 'basic_discrete_SIR':
                b = EoN.discrete_SIR(G, args=(case['p'],), **kw)
            else:
                H = EoN.percolate_network(G, case['p'])
                b = EoN.discrete_SIR(H, test_transmission=H.has_edge, **kw)
            b = canon(call, b)
        except Exception as e:
            viol(res, '%s|%s|definition|exception:%s' % (sim, mode, simcase.exc_key(e)), {'err': repr(e)})
            return res
        bump(res, 'wrapper_pairs_compared')
        if a != b:
            viol(res, '%s|%s|differs_from_definition' % (sim, mode + ('+R0' if case.get('R0') else '')), {'I0': case['I0'], 'R0': case.get('R0'), 'p': case['p'], 'tmin': case['tmin'], 'tmax': case['tmax']})
        if n >= 2:
            res['nontrivial'] = 'wrap:%s:%s:%s' % (sim, mode, gen.iso_key(case['graph']))
            res['sample'] = {'kind': kind, 'sim': sim, 'p': case['p'], 'graph': case['graph']}
        return res
    return res
