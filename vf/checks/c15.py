"""C15 - Gillespie_complex_contagion always acts on up-to-date rates.

Harness-supplied rate / chooser / influence-set functions record the live status mapping at each call.  E2: the clock rate must equal the
sum over ALL nodes of the user rate evaluated on the current statuses (this is what exposes stale rates), the candidate list must be exactly
the nodes of positive rate with accept thresholds rate/M, the new status is the chooser's answer, the loop ends exactly when all true rates
are 0 or t >= tmax, counts track statuses.  E3: RNG-driven steering over all reachable states of small graphs."""
import random
import numpy as np
import networkx as nx
from .. import gen, simcase, rngprobe, generic_e2
from ..markov import ParseError
from ..runner import new_result, viol, bump, case_seed

PID = 'C15'
LEVEL = 'exploration'
MODELS = ['sir', 'sis', 'threshold', 'watts', 'kofn', 'dist2', 'global', 'sirs_mixed', 'lazy', 'seir_econ', 'slow_sir', 'twoscale']
RULE = ('models: SIR / SIS through this API, fixed-threshold and Watts fractional-threshold contagion, k-of-n, distance-2 influence, global-field '
        'rates (influence set = all nodes), SIRS with heterogeneous non-dyadic rates; graphs n<=12 (e2) and every atlas graph with <=4 nodes (e3, quick; '
        '<=5 thorough); influence sets computed conservatively so the premise of the statement holds.  Non-trivial = >=1 event; distinct = (kind, model, '
        'graph iso key, parameter class).')
ASSUMPTIONS = ['the harness influence-set functions cover every node whose rate can change (premise of the statement)']
BUDGET = {'quick': 160, 'thorough': 1500}
CHUNK = {'quick': 10, 'thorough': 40}
CASE_TIMEOUT = 300
REQUIRED = ['long_runs_checked', 'clock_totals_checked_after_the_fast_scale_left', 'runs_reporting_a_strict_subset_of_statuses', 'null_events_seen', 'steps_law_checked', 'clock_draws_checked', 'selections_checked', 'thresholds_checked', 'chooser_calls_checked', 'terminations_checked', 'one_shot_influence_iterables', 'falsy_status_label_runs',
            'counts_follow_statuses', 'e3_states_expanded', 'rate_zero_after_event_seen']


def model(name, params):
    a, b = params
    if name in ('sir', 'sis', 'threshold'):
        from ..simreg import complex_model
        rate, choice, infl, sts, moves = complex_model(name, params)
        return (lambda G, n, s, p=None: rate(G, n, s, p)), (lambda G, n, s, p=None: choice(G, n, s, p)), (lambda G, n, s, p=None: list(G.neighbors(n))), sts
    if name == 'watts':
        def rate(G, n, s, p=None):
            if s[n] == 'A':
                return 0
            k = G.degree(n)
            if k == 0:
                return 0
            f = sum(1 for v in G.neighbors(n) if s[v] == 'A') / float(k)
            return a if f >= 0.5 else (0.1 * a if f > 0 else 0)
        return rate, (lambda G, n, s, p=None: 'A'), (lambda G, n, s, p=None: list(G.neighbors(n))), ['B', 'A']
    if name == 'kofn':
        def rate(G, n, s, p=None):
            if s[n] == 'I':
                return b
            if s[n] == 'R':
                return 0
            k = sum(1 for v in G.neighbors(n) if s[v] == 'I')
            return a * k * k if k >= 1 else 0
        return rate, (lambda G, n, s, p=None: 'I' if s[n] == 'S' else 'R'), (lambda G, n, s, p=None: list(G.neighbors(n))), ['S', 'I', 'R']
    if name == 'dist2':
        def ball(G, n):
            out = []
            for v in G.neighbors(n):
                out.append(v)
                for w in G.neighbors(v):
                    if w != n:
                        out.append(w)
            return list(dict.fromkeys(out))

        def rate(G, n, s, p=None):
            if s[n] == 'I':
                return b
            return a * sum(1 for v in ball(G, n) if s[v] == 'I')
        return rate, (lambda G, n, s, p=None: 'I' if s[n] == 'S' else 'S'), (lambda G, n, s, p=None: ball(G, n)), ['S', 'I']
    if name == 'global':
        def rate(G, n, s, p=None):
            frac = sum(1 for v in G if s[v] == 'I') / float(G.order())
            if s[n] == 'I':
                return b * (1 + frac)
            if s[n] == 'S':
                return a * frac
            return 0
        return rate, (lambda G, n, s, p=None: 'I' if s[n] == 'S' else 'R'), (lambda G, n, s, p=None: list(G)), ['S', 'I', 'R']
    if name == 'sirs_mixed':
        def rate(G, n, s, p=None):
            h = 0.1 + 0.3 * (hash(repr(n)) % 7 if False else (len(repr(n)) % 3))     # heterogeneous, non-dyadic, label-type independent
            if s[n] == 'I':
                return b * (0.7 + h)
            if s[n] == 'R':
                return 0.3 + h
            return a * 1.1 * sum(1 for v in G.neighbors(n) if s[v] == 'I')
        return rate, (lambda G, n, s, p=None: {'S': 'I', 'I': 'R', 'R': 'S'}[s[n]]), (lambda G, n, s, p=None: list(G.neighbors(n))), ['S', 'I', 'R']
    if name == 'lazy':
        # the chooser may answer with the node's current status (a user model with 'failed attempts'): nothing changes, the clock still runs
        def rate(G, n, s, p=None):
            if s[n] == 'I':
                return b
            return a * sum(1 for v in G.neighbors(n) if s[v] == 'I')

        def choice(G, n, s, p=None):
            k = sum(1 for v in G.neighbors(n) if s[v] == 'I')
            if s[n] == 'I':
                return 'S' if k % 2 == 0 else 'I'
            return 'I' if k != 2 else 'S'
        return rate, choice, (lambda G, n, s, p=None: list(G.neighbors(n))), ['S', 'I']
    if name == 'slow_sir':
        # the same SIR-like model in a time unit 1e10 times smaller (rates of order 1e-10, horizons of order 1e10 or none): the law is
        # scale-free, "all rates are zero" means zero, not small
        def rate(G, n, s, p=None):
            if s[n] == 'I':
                return b * 1e-10
            if s[n] == 'S':
                return a * 1e-10 * sum(1 for v in G.neighbors(n) if s[v] == 'I') + 3e-11
            return 0
        return rate, (lambda G, n, s, p=None: 'I' if s[n] == 'S' else 'R'), (lambda G, n, s, p=None: list(G.neighbors(n))), ['S', 'I', 'R']
    if name == 'twoscale':
        # fast and slow states: a node in F fires at a rate 1e17 times the others and then moves to B, whose rate is small but not zero
        def rate(G, n, s, p=None):
            if s[n] == 'F':
                return a * 1e17
            if s[n] == 'B':
                return b * (1 + 0.5 * sum(1 for v in G.neighbors(n) if s[v] == 'C'))
            return 0
        return rate, (lambda G, n, s, p=None: {'F': 'B', 'B': 'C'}[s[n]]), (lambda G, n, s, p=None: list(G.neighbors(n))), ['B', 'F', 'C']
    if name == 'flip':
        # never absorbing: every node keeps switching between A and B (used for the long runs: more than 1e5 rate updates in one call)
        def rate(G, n, s, p=None):
            if s[n] == 'A':
                return a
            return b * (1 + sum(1 for v in G.neighbors(n) if s[v] == 'A'))
        return rate, (lambda G, n, s, p=None: 'B' if s[n] == 'A' else 'A'), (lambda G, n, s, p=None: list(G.neighbors(n))), ['A', 'B']
    if name == 'seir_econ':
        # an economical influence-set function, as the docstring invites ("leave out any nodes that it wouldn't have affected"): it looks at
        # what the node has just become.  S->E changes nobody's rate (empty set); E->I and I->R change the rates of the susceptible neighbours
        def rate(G, n, s, p=None):
            if s[n] == 'E':
                return b
            if s[n] == 'I':
                return 0.6 * b
            if s[n] == 'S':
                return a * sum(1 for v in G.neighbors(n) if s[v] == 'I')
            return 0

        def infl(G, n, s, p=None):
            if s[n] == 'E':
                return []
            return [v for v in G.neighbors(n) if s[v] == 'S']
        return rate, (lambda G, n, s, p=None: {'S': 'E', 'E': 'I', 'I': 'R'}[s[n]]), infl, ['S', 'E', 'I', 'R']
    raise ValueError(name)


def gen_cases(tier, seed):
    q = tier == 'quick'
    out = []
    n = 4000 if q else 100000
    for k in range(n):
        cs = case_seed(seed, PID, k)
        r = random.Random(cs)
        desc = gen.random_graph(r, 1, 12)
        desc['labels'] = r.choice(gen.LABEL_SCHEMES)
        m = MODELS[k % len(MODELS)]
        out.append({'kind': 'e2', 'graph': desc, 'model': m, 'params': [r.choice([0.3, 0.7, 1.0, 2.3]), r.choice([0.3, 1.0, 1.9])],
                    'IC': [r.choice([0, 0, 1]) for _ in range(desc['n'])], 'tmin': r.choice([0, -2, 1.5]),
                    'tmax': r.choice(['inf', 1.0, 3.0, 2]) if m in ('sir', 'threshold', 'watts', 'kofn', 'global', 'slow_sir', 'twoscale') else r.choice([0.5, 1.5, 2]),     # span; tmin=-2 with span 2: horizon exactly 0
                    'full': r.random() < 0.5, 'seed': cs, 'infl_form': r.choice(['list', 'tuple', 'set', 'iterator', 'generator', 'dictkeys']),
                    'label_map': r.choice(['str', 'int0', 'rev_int', 'bool', 'emptystr']), 'return_subset': r.random() < 0.3, 'ic_extra': r.random() < 0.3})
        if m == 'twoscale':
            out[-1]['tmin'] = 0          # waiting times of order 1e-17 are absorbed by any other start time (ties)
    # size-gated bookkeeping: one call with more than 1e5 rate updates (tens of thousands of events on a small ring)
    for j in range(1 if q else 3):
        cs = case_seed(seed, PID + 'long', j)
        r = random.Random(cs)
        nn = r.choice([10, 12])
        out.append({'kind': 'e2', 'graph': {'n': nn, 'edges': [[i, (i + 1) % nn] for i in range(nn)], 'labels': 'int', 'kind': 'ring'}, 'model': 'flip',
                    'params': [r.choice([0.7, 1.0]), r.choice([0.3, 1.0])], 'IC': [i % 2 for i in range(nn)], 'tmin': 0, 'tmax': 100000.0 / nn, 'full': False, 'seed': cs,
                    'infl_form': 'list', 'label_map': 'str', 'return_subset': False, 'long': True})
    nmax = 4 if q else 5
    k = 0
    for desc in gen.atlas(nmax, 2):
        for m in MODELS:
            k += 1
            if m == 'twoscale':
                continue          # accept thresholds of 1e-17 are not branches worth steering
            cs = case_seed(seed, PID + 'e3', k)
            r = random.Random(cs)
            d = dict(desc)
            d['labels'] = 'int'
            out.append({'kind': 'e3', 'graph': d, 'model': m, 'params': [r.choice([0.7, 1.0, 2.3]), r.choice([0.3, 1.9])],
                        'IC': [1 if i == 0 else r.choice([0, 0, 1]) for i in range(d['n'])], 'tmin': 0, 'tmax': 1000.0, 'full': True, 'seed': cs,
                        'infl_form': ['list', 'iterator', 'set', 'generator', 'tuple', 'dictkeys'][k % 6],
                        'label_map': ['str', 'int0', 'rev_int', 'bool', 'emptystr'][k % 5]})
    return out


def run_case(case):
    import EoN
    res = new_result()
    G, lab = gen.build_graph(case['graph'])
    rate_s, chooser_s, infl_s, sts_s = model(case['model'], case['params'])
    # status labels are the user's business: strings, ints (incl. the falsy 0), bools, the empty string ...
    lm = case.get('label_map', 'str')
    if lm == 'int0':
        fwd = {x: i for i, x in enumerate(sts_s)}
    elif lm == 'rev_int':
        fwd = {x: len(sts_s) - 1 - i for i, x in enumerate(sts_s)}
    elif lm == 'bool' and len(sts_s) == 2:
        fwd = {sts_s[0]: False, sts_s[1]: True}
    elif lm == 'emptystr':
        fwd = {x: ('' if i == 0 else 'x' * i) for i, x in enumerate(sts_s)}
    else:
        fwd = {x: x for x in sts_s}
    inv = {v: k for k, v in fwd.items()}
    sts = [fwd[x] for x in sts_s]

    class _View(object):            # the models are written in terms of the string labels; they see the statuses through this view
        def __init__(self, st):
            self.st = st

        def __getitem__(self, n):
            return inv[self.st[n]]

    def rate(Gx, n, status, p=None):
        return rate_s(Gx, n, _View(status), p)

    def chooser(Gx, n, status, p=None):
        return fwd[chooser_s(Gx, n, _View(status), p)]

    def infl0(Gx, n, status, p=None):
        return infl_s(Gx, n, _View(status), p)
    # the influence set may be any iterable the user likes: list, tuple, set, one-shot iterator / generator (e.g. G.neighbors(node)), dict view
    form = case.get('infl_form', 'list')

    def infl(Gx, node, status, parameters):
        out = list(infl0(Gx, node, status, parameters))
        if form == 'tuple':
            return tuple(out)
        if form == 'set':
            return set(out)
        if form == 'iterator':
            return iter(out)
        if form == 'generator':
            return (x for x in out)
        if form == 'dictkeys':
            return dict.fromkeys(out).keys()
        return out
    nodes = list(G)
    IC = {lab(i): sts[min(case['IC'][i], len(sts) - 1)] for i in range(case['graph']['n'])}
    # 'IC[node] is the status of node': the mapping may describe a larger population than G (entries for keys that are not nodes of G)
    from ..simreg import _ic_argument
    IC_arg = _ic_argument(IC, sts, case)
    if len(IC_arg) > len(IC):
        bump(res, 'runs_with_IC_entries_outside_G')
    tmin = case['tmin']
    tmax = float('inf') if case['tmax'] == 'inf' else (tmin + case['tmax'] if case['kind'] == 'e2' else case['tmax'])
    if case['model'] == 'slow_sir' and tmax != float('inf'):
        tmax = tmin + (tmax - tmin) * 1e10
    tag = 'Gillespie_complex_contagion|%s' % case['model']
    if form in ('iterator', 'generator'):
        bump(res, 'one_shot_influence_iterables')
    if any(not x for x in sts):
        bump(res, 'falsy_status_label_runs')
    chooser_calls = []

    def rec_chooser(Gx, node, status, parameters):
        r = chooser(Gx, node, status, parameters)
        chooser_calls.append((node, tuple(status[u] for u in nodes), r))
        return r

    def rate_plain(Gx, n, status):
        return rate(Gx, n, status, None)

    def chooser_plain(Gx, n, status):
        return chooser(Gx, n, status, None)

    # return_statuses may be any selection (and order) of the model's statuses: counts are reported for those only
    rs = list(sts)
    if case.get('return_subset'):
        rr = random.Random(case['seed'] + 23)
        rs = rr.sample(sts, rr.randint(1, len(sts)))
        if len(rs) < len(sts):
            bump(res, 'runs_reporting_a_strict_subset_of_statuses')

    def call(full):
        return EoN.Gillespie_complex_contagion(G, rate, rec_chooser, infl, IC_arg, list(rs), tmin=tmin, tmax=tmax, parameters=('p',), return_full_data=full)
    if case['kind'] == 'e2':
        fails, counters = [], {}
        try:
            with rngprobe.monitor(seed=case['seed']) as px:
                px.starve_after = 2000 * (G.order() + 1)
                out = call(case['full'])
        except rngprobe.SelectionStarved as e:
            # bounded progress: with a rejection bound equal to the largest current rate a selection needs at most N proposals on average
            viol(res, tag + '|selection_starved_by_a_rejection_bound_far_above_every_current_rate', {'consecutive_rejections': e.n, 'nodes': G.order(), 'params': case['params']})
            return res
        except Exception as e:
            viol(res, tag + '|%s|exception:%s' % ('tmax_inf' if tmax == float('inf') else 'tmax_finite', simcase.exc_key(e)), {'err': repr(e)})
            return res
        try:
            events = generic_e2.e2_complex(G, rate_plain, chooser_plain, IC, tmin, tmax, px.log, chooser_calls, fails, counters, two_scale=(case['model'] == 'twoscale'))
        except ParseError as e:
            res['inconclusive'] = 'draw protocol of Gillespie_complex_contagion not recognised: %s' % e
            return res
        for k, v in counters.items():
            bump(res, k, v)
        if case.get('long'):
            bump(res, 'long_runs_checked')
            bump(res, 'events_in_long_runs', len(events))
        for pred, det in fails:
            viol(res, tag + '|' + pred, det)
        if not fails:
            _check_output(G, nodes, IC, rs, out, events, case['full'], tmin, res, tag, rate_plain)
        if events:
            res['nontrivial'] = 'e2:%s:%s:%s' % (case['model'], gen.iso_key(case['graph']), case['params'])
            res['sample'] = {'kind': 'e2', 'model': case['model'], 'graph': case['graph'], 'events': len(events), 'params': case['params']}
        return res
    visited, allfails, ctr, nruns = set(), [], {}, [0]

    def run(d):
        d.stop_after = 10
        del chooser_calls[:]
        aborted = False
        with rngprobe.monitor(driver=d) as px:
            try:
                out = call(True)
            except rngprobe.DepthExceeded:
                aborted, out = True, None
        annot, fails = {}, []
        events = generic_e2.e2_complex(G, rate_plain, chooser_plain, IC, tmin, tmax, px.log, list(chooser_calls), fails, ctr, annot, visited, partial=aborted, two_scale=(case['model'] == 'twoscale'))
        allfails.extend(fails)
        nruns[0] += 1
        if not aborted and not fails:
            _check_output(G, nodes, IC, sts, out, events, True, tmin, res, tag, rate_plain)
        return annot

    def key(annot, d, i):
        return annot.get(d.decisions[i]['info']['logpos'], ('unannotated',))
    try:
        for script, d, out in rngprobe.explore(run, key, max_runs=30000, expo_value=0.25):
            if allfails or res['violations']:
                break
    except ParseError as e:
        res['inconclusive'] = 'draw protocol of Gillespie_complex_contagion not recognised: %s' % e
        return res
    except rngprobe.DepthExceeded:
        bump(res, 'e3_bound_hit')
    except Exception as e:
        viol(res, tag + '|steered|exception:%s' % simcase.exc_key(e), {'err': repr(e)})
        return res
    for k, v in ctr.items():
        bump(res, k, v)
    for pred, det in allfails[:3]:
        viol(res, tag + '|' + pred, det)
    bump(res, 'e3_states_expanded', len(visited))
    bump(res, 'e3_runs', nruns[0])
    if not allfails and not res['violations'] and not res['counters'].get('e3_bound_hit'):
        # coverage: every state reachable in the user's model with positive total rate must have been expanded
        start = tuple(IC[u] for u in nodes)
        seen, stack, live = {start}, [start], set()
        while stack:
            st = stack.pop()
            sd = dict(zip(nodes, st))
            rs = {u: rate_plain(G, u, sd) for u in nodes}
            if sum(rs.values()) > 0:
                live.add(st)
            for u in nodes:
                if rs[u] > 0:
                    nd = dict(sd)
                    nd[u] = chooser_plain(G, u, sd)
                    nt = tuple(nd[x] for x in nodes)
                    if nt not in seen:
                        seen.add(nt)
                        stack.append(nt)
        bump(res, 'e3_states_reachable', len(live))
        if visited != live:
            viol(res, tag + '|state_coverage', {'reachable_not_expanded': [list(x) for x in sorted(live - visited)[:3]], 'expanded_not_reachable': [list(x) for x in sorted(visited - live)[:3]]})
    if visited:
        res['nontrivial'] = 'e3:%s:%s' % (case['model'], gen.iso_key(case['graph']))
        res['sample'] = {'kind': 'e3', 'model': case['model'], 'graph': case['graph'], 'states_expanded': len(visited), 'scripted_runs': nruns[0]}
    return res


def _check_output(G, nodes, IC, sts, out, events, full, tmin, res, tag, rate_plain):
    status = dict(IC)
    rows = [(tmin,) + tuple(sum(1 for u in nodes if status[u] == s) for s in sts)]
    for (t, v, a, b, _) in events:
        status[v] = b
        if a == b:
            bump(res, 'null_events_seen')        # chooser answered with the current status
        rows.append((t,) + tuple(sum(1 for u in nodes if status[u] == s) for s in sts))
        if rate_plain(G, v, status) == 0:
            bump(res, 'rate_zero_after_event_seen')
    if full:
        t, D = out.summary()
        got = [(float(t[k]),) + tuple(int(D[s][k]) for s in sts) for k in range(len(t))]
        by_node = {}
        for (tt, v, a, b, _) in events:
            by_node.setdefault(v, []).append((tt, b))
        for u in nodes:
            ts, ss = map(list, out.node_history(u))
            if list(zip(ts[1:], ss[1:])) != by_node.get(u, []) or ss[0] != IC[u]:
                viol(res, tag + '|history_equals_drawn_events', {'node': repr(u)})
                return
    else:
        got = [tuple([float(out[0][k])] + [int(a[k]) for a in out[1:]]) for k in range(len(out[0]))]
    if got != rows:
        viol(res, tag + '|counts_track_statuses', {'reported': got[:5], 'from_drawn_events': rows[:5]})
        return
    bump(res, 'counts_follow_statuses')
