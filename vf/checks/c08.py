"""C08 - ODE models are exact where theory says so: trees, final sizes, limits.

kinds
  tree    SIR_pair_based_pure_IC / SIR_pair_based (0/1 Y0) vs the exact master-equation expectation on every tree up to the size bound
  final   Attack_rate_cts_time vs lim R/N of EBCM ; Attack_rate_discrete vs lim of EBCM_discrete
  recur   R(t+1) = R(t) + I(t) on every EBCM_discrete / EBCM_pref_mix_discrete output
  tau0    tau = 0: I(t) = I(0) exp(-gamma t) for every model, S constant for SIR models (S = N - I for SIS)
  gamma0  gamma = 0: SIS and SIR versions of a model give the same S(t) (super-compact pair excluded)
"""
import random, warnings, itertools
import numpy as np
import networkx as nx
from .. import gen, odereg, simcase
from ..runner import new_result, viol, bump, setmax, case_seed
from ..oracles import ctmc

PID = 'C08'
LEVEL = 'exploration'
RULE = ('tree: every tree with 2..6 nodes (quick) / 2..7 (thorough) x every single seed + random multi-seed placements with initially recovered nodes x '
        '{unweighted, edge weights, node weights, both}; final/recur/tau0/gamma0: random degree distributions, rates, rho.  Non-trivial = the epidemic '
        'changes S by more than 1e-3 N (tree/final/gamma0) or I decays (tau0); distinct = (kind, graph iso key, seed placement / model, parameter class).')
ASSUMPTIONS = ['master-equation expectation computed with scipy expm on the 3^N state space is the ground truth for trees',
               'final-size comparisons skip parameter sets where the 100 fixed-point iterations have not converged (checked against 2000 iterations)']
BUDGET = {'quick': 170, 'thorough': 1700}
CHUNK = {'quick': 4, 'thorough': 10}
CASE_TIMEOUT = 400
REQUIRED = ['gamma0_pairs_on_networks_with_self_loops', 'trees_compared', 'tree_node_curves_compared', 'final_sizes_compared', 'final_size_form_sets', 'final_size_form_direct', 'final_size_form_sk0', 'final_size_sets_on_multigraph', 'gamma0_pairs_on_networks_with_mean_degree_below_1', 'final_size_with_initially_recovered', 'recurrences_checked', 'tau0_models_checked', 'gamma0_pairs_compared']

SIS_SIR_PAIRS = [('SIS_homogeneous_meanfield_from_graph', 'SIR_homogeneous_meanfield_from_graph'), ('SIS_homogeneous_pairwise_from_graph', 'SIR_homogeneous_pairwise_from_graph'),
                 ('SIS_heterogeneous_meanfield_from_graph', 'SIR_heterogeneous_meanfield_from_graph'), ('SIS_heterogeneous_pairwise_from_graph', 'SIR_heterogeneous_pairwise_from_graph'),
                 ('SIS_compact_pairwise_from_graph', 'SIR_compact_pairwise_from_graph'), ('SIS_effective_degree_from_graph', 'SIR_effective_degree_from_graph'),
                 ('SIS_individual_based', 'SIR_individual_based'), ('SIS_pair_based', 'SIR_pair_based')]
TAU0_MODELS = [a for p in SIS_SIR_PAIRS for a in p] + ['SIS_super_compact_pairwise_from_graph', 'SIR_super_compact_pairwise_from_graph', 'EBCM_from_graph',
                                                         'SIR_compact_effective_degree_from_graph', 'SIS_compact_effective_degree_from_graph', 'EBCM_pref_mix_from_graph']


def gen_cases(tier, seed):
    q = tier == 'quick'
    out = []
    trees = gen.all_trees(6 if q else 7, 2)
    k = 0
    for t in trees:
        n = t['n']
        placements = [([i], []) for i in range(n)]
        r0 = random.Random(seed * 1000 + n * 17 + len(placements))
        for _ in range(2 if q else 4):
            if n >= 3:
                I0 = r0.sample(range(n), r0.randint(1, 2))
                rest = [i for i in range(n) if i not in I0]
                R0 = r0.sample(rest, r0.randint(0, min(1, len(rest) - 1)))
                placements.append((sorted(I0), sorted(R0)))
        if not q and n == 7:
            placements = placements[:3] + placements[-2:]
        for (I0, R0) in placements:
            for wm in (['none', 'both'] if q else ['none', 'edge', 'node', 'both']):
                k += 1
                cs = case_seed(seed, PID + 'tree', k)
                r = random.Random(cs)
                d = dict(t)
                d['labels'] = r.choice(gen.LABEL_SCHEMES)
                d['decoy'] = r.random() < 0.35       # edges / nodes also carry attributes the call does not name ('weight', 'rate'), e.g. a distance read from a file
                if wm in ('edge', 'both'):
                    d['ew'] = {simcase.TW: [r.choice([0.5, 1.0, 1.7, 2.5]) for _ in d['edges']]}
                if wm in ('node', 'both'):
                    d['nw'] = {simcase.RW: [r.choice([0.5, 1.0, 1.5]) for _ in range(n)]}
                out.append({'kind': 'tree', 'graph': d, 'wm': wm, 'I0': I0, 'R0': R0, 'tau': r.choice([0.6, 1.0, 2.0]), 'gamma': r.choice([0.5, 1.0]),
                            'tspan': 4.0, 'tcount': 9, 'tmin': r.choice([0, 1.5]), 'entry_form': r.choice(['pure_IC', 'Y0']), 'seed': cs})
    n2 = 2000 if q else 40000
    kinds = ['final', 'final_d', 'recur', 'tau0', 'gamma0', 'tau0', 'gamma0']
    for j in range(n2):
        cs = case_seed(seed, PID, j)
        r = random.Random(cs)
        nn = r.randint(8, 30)
        degs = [r.choice([1, 2, 2, 3, 3, 4, 5]) for _ in range(nn)]
        if sum(degs) % 2:
            degs[0] += 1
        g = nx.Graph(nx.configuration_model(degs, seed=r.randrange(10 ** 9)))
        g.remove_edges_from(nx.selfloop_edges(g))
        kind = kinds[j % len(kinds)]
        if kind in ('tau0', 'gamma0') and j % 2:
            kk = r.choice([2, 3, 4])
            nn = r.choice([6, 8])
            g = nx.random_regular_graph(kk, nn, seed=r.randrange(10 ** 9))
        if kind in ('tau0', 'gamma0') and (j // len(kinds)) % 5 == 3:
            # very sparse network (average degree below 1: a partial matching plus isolated nodes)
            nn = r.randint(8, 16)
            g = nx.Graph()
            g.add_nodes_from(range(nn))
            for a in range(0, nn // 2 - r.randint(0, 2), 2):
                g.add_edge(a, a + 1)
        loops = kind == 'gamma0' and (j // len(kinds)) % 5 == 1
        if loops:
            # self-loops (nx.Graph(nx.configuration_model(...)) keeps them, as in the library's own examples): whatever a model makes of them,
            # its SIS and SIR versions read the same network
            for a_ in r.sample(list(g), min(2, g.number_of_nodes())):
                g.add_edge(a_, a_)
        desc = {'n': g.number_of_nodes(), 'edges': sorted([sorted(e) for e in g.edges()]), 'labels': r.choice(gen.LABEL_SCHEMES)}
        if desc['n'] and 2.0 * len(desc['edges']) / desc['n'] < 1:
            desc['sparse'] = True
        if kind in ('final', 'final_d') and (j // len(kinds)) % 4 in (1, 2) and r.random() < 0.5:
            # the raw configuration-model MultiGraph (parallel edges, self-loops), as in the library's own examples
            mg = nx.configuration_model(degs, seed=r.randrange(10 ** 9))
            desc = {'n': mg.number_of_nodes(), 'edges': sorted([sorted(e) for e in mg.edges()]), 'labels': desc['labels'], 'multi': True}
        out.append({'kind': kind, 'graph': desc, 'tau': r.choice([0.4, 0.8, 1.5, 3.0]), 'gamma': r.choice([0.5, 1.0, 2.0]), 'rho': r.choice([0.01, 0.05, 0.2]),
                    'p': r.choice([0.2, 0.45, 0.7, 0.95]), 'model_idx': j // len(kinds), 'seed': cs, 'tmin': r.choice([0, 0, 1.5, -2])})
        if kind == 'final_d' and r.random() < 0.3:
            out[-1]['rho'] = r.choice([1e-5, 1e-9, 1e-12])       # one index case in a very large population (the first iterates barely move)
    return out


def _quiet(f, *a, **kw):
    with warnings.catch_warnings(record=True) as wl:
        warnings.simplefilter('always')
        with np.errstate(all='warn'):
            out = f(*a, **kw)
    bad = any(issubclass(w.category, RuntimeWarning) or 'ODEint' in str(w.category) for w in wl)
    return out, bad


def run_tree(case, res):
    import EoN
    from scipy.linalg import expm
    gdesc = gen.shuffle_desc(random.Random(case['seed'] + 5), case['graph']) if case['seed'] % 2 else case['graph']
    G, lab = gen.build_graph(gdesc)
    n = case['graph']['n']
    tau, gamma = case['tau'], case['gamma']
    wm = case['wm']
    ew = {}
    ws = (case['graph'].get('ew') or {}).get(simcase.TW)
    for k, (u, v) in enumerate(case['graph']['edges']):
        w = ws[k] if ws else 1.0
        ew[(u, v)] = ew[(v, u)] = w
    nws = (case['graph'].get('nw') or {}).get(simcase.RW)
    nw = {i: (nws[i] if nws else 1.0) for i in range(n)}
    states, index, Q = ctmc.build_chain(n, [tuple(e) for e in case['graph']['edges']], tau, gamma, ew, nw, 'SIR')
    s0 = ['S'] * n
    for i in case['I0']:
        s0[i] = 'I'
    for i in case['R0']:
        s0[i] = 'R'
    times = np.linspace(case['tmin'], case['tmin'] + case['tspan'], case['tcount'])
    dt = times[1] - times[0]
    P1 = expm(Q * dt)
    p = np.zeros(len(states))
    p[index[tuple(s0)]] = 1.0
    isS = np.array([[1.0 if s[i] == 'S' else 0.0 for i in range(n)] for s in states])
    isI = np.array([[1.0 if s[i] == 'I' else 0.0 for i in range(n)] for s in states])
    exS, exI = [], []
    for _ in times:
        exS.append(p @ isS)
        exI.append(p @ isI)
        p = p @ P1
    exS, exI = np.array(exS).T, np.array(exI).T            # (n, T) in index order
    # the caller's nodelist is in an arbitrary order, unrelated to the insertion order of G (which is shuffled as well)
    rp = random.Random(case['seed'] + 11)
    perm = list(range(n))
    if case['seed'] % 3:
        rp.shuffle(perm)
    nodelist = [lab(i) for i in perm]
    exS, exI = exS[perm], exI[perm]
    kw = dict(nodelist=nodelist, tmin=case['tmin'], tmax=case['tmin'] + case['tspan'], tcount=case['tcount'], return_full_data=True)
    if wm in ('edge', 'both'):
        kw['transmission_weight'] = simcase.TW
    if wm in ('node', 'both'):
        kw['recovery_weight'] = simcase.RW
    I0 = [lab(i) for i in case['I0']]
    R0 = [lab(i) for i in case['R0']]
    name = 'SIR_pair_based_pure_IC' if case['entry_form'] == 'pure_IC' else 'SIR_pair_based'
    try:
        if name == 'SIR_pair_based_pure_IC':
            out, bad = _quiet(EoN.SIR_pair_based_pure_IC, G, tau, gamma, I0, initial_recovereds=(R0 or None), **kw)
        else:
            Y0 = np.array([1.0 if i in case['I0'] else 0.0 for i in perm])
            X0 = np.array([0.0 if (i in case['I0'] or i in case['R0']) else 1.0 for i in perm])
            out, bad = _quiet(EoN.SIR_pair_based, G, tau, gamma, Y0=Y0, X0=X0, **kw)
    except Exception as e:
        viol(res, '%s|%s|exception:%s' % (name, wm, simcase.exc_key(e)), {'err': repr(e)[:200]})
        return
    if bad:
        bump(res, 'discarded_numerical_warnings')
        return
    t, S, I, R, Xs, Ys, Zs = out[:7]
    bump(res, 'trees_compared')
    if case['graph'].get('decoy'):
        bump(res, 'trees_with_unnamed_attributes')
    bump(res, 'tree_node_curves_compared', 2 * n)
    dpop = max(float(np.max(np.abs(S - exS.sum(axis=0)))), float(np.max(np.abs(I - exI.sum(axis=0)))))
    dnode = max(float(np.max(np.abs(np.asarray(Xs) - exS))), float(np.max(np.abs(np.asarray(Ys) - exI))))
    setmax(res, 'max_tree_error', max(dpop, dnode))
    if dpop > 1e-5 or dnode > 1e-5:
        viol(res, '%s|%s|exact_on_trees' % (name, wm), {'population_error': dpop, 'per_node_error': dnode, 'graph': case['graph'], 'I0': case['I0'], 'R0': case['R0'],
                                                        'tau': tau, 'gamma': gamma, 'S_model_end': float(S[-1]), 'S_exact_end': float(exS.sum(axis=0)[-1])})
    if abs(S[0] - S[-1]) > 1e-3:
        res['nontrivial'] = 'tree:%s:%s:%s:%s' % (gen.iso_key(case['graph']), case['I0'], case['R0'], wm)
        res['sample'] = {'kind': 'tree', 'entry': name, 'graph': case['graph'], 'I0': case['I0'], 'R0': case['R0'], 'wm': wm, 'population_error': dpop, 'per_node_error': dnode}


def run_final(case, res, discrete):
    import EoN
    from vf.oracles import ic_counts
    G, lab = gen.build_graph(case['graph'])
    N = float(G.order())
    n = G.order()
    Pk = odereg.EoN_get_Pk(G)
    rho = case['rho']
    # three ways of stating the initial condition: rho | explicit node sets through the *_from_graph wrapper | the same sets
    # condensed by the harness into (Sk0, phiS0, phiR0) and given to the degree-distribution form
    rc = random.Random(case['seed'] + 11)
    form = ('rho', 'sets', 'direct', 'sk0')[case.get('model_idx', 0) % 4]
    I0 = R0 = ()
    if form == 'sk0':
        # degree-dependent random introduction: a degree-k node is initially susceptible with probability Sk0[k]; phiS0 is left to its
        # default.  The matching dynamics is EBCM(_discrete) with psihat(x) = sum Pk Sk0[k] x^k and phiS0 = psihat'(1)/<k>
        # (the probability that the node at the end of a random edge is susceptible), phiR0 = 0
        Sk0 = {k: rc.choice([0.5, 0.7, 0.9, 0.97, 1.0]) for k in Pk}
        kave = sum(k * pk for k, pk in Pk.items())
        ps = lambda x: sum(Pk[k] * Sk0[k] * x ** k for k in Pk)
        psP = lambda x: sum(k * Pk[k] * Sk0[k] * x ** (k - 1) for k in Pk if k >= 1)
        if len(set(Sk0.values())) < 2 or psP(1.0) <= 0 or ps(1.0) >= 1.0:
            form = 'rho'
        else:
            rho = 1 - ps(1.0)
            try:
                if discrete:
                    p = case['p']
                    a100, a2000 = EoN.Attack_rate_discrete(Pk, p, Sk0=dict(Sk0)), EoN.Attack_rate_discrete(Pk, p, Sk0=dict(Sk0), number_its=2000)
                    t, S, I, R = EoN.EBCM_discrete(N, ps, psP, p, psP(1.0) / kave, tmax=400)
                else:
                    tau, gamma = case['tau'], case['gamma']
                    a100, a2000 = EoN.Attack_rate_cts_time(Pk, tau, gamma, Sk0=dict(Sk0)), EoN.Attack_rate_cts_time(Pk, tau, gamma, Sk0=dict(Sk0), number_its=2000)
                    (t, S, I, R), bad = _quiet(EoN.EBCM, N, ps, psP, tau, gamma, psP(1.0) / kave, tmax=60.0 / gamma + 200.0, tcount=41)
                    if bad:
                        bump(res, 'discarded_numerical_warnings')
                        return
            except Exception as e:
                viol(res, 'final_size|%s|%s|exception:%s' % ('discrete' if discrete else 'cts', form, simcase.exc_key(e)), {'err': repr(e)[:200]})
                return
            bump(res, 'final_size_form_sk0')
    if form not in ('rho', 'sk0'):
        I0i = rc.sample(range(n), rc.randint(1, 3))
        rest = [i for i in range(n) if i not in I0i]
        R0i = rc.sample(rest, rc.randint(0, min(4, len(rest) - 2)))
        I0, R0 = [lab(i) for i in I0i], [lab(i) for i in R0i]
        ic = ic_counts.from_sets(G, I0, R0)
        # domain: some susceptible node has an infected neighbour (phi_I > 0); otherwise the dynamics sit on the disease-free
        # equilibrium while Attack_rate_* reports the size 'if an epidemic occurs' (the other root of the same equation)
        if not any(ic['status'][u] == 'S' and any(ic['status'][v] == 'I' for v in G.neighbors(u)) for u in G):
            form = 'rho'
        else:
            Sk0 = {k: (ic['Sk'][k] / ic['Nk'][k]) for k in Pk}
            rho = (len(I0) + len(R0)) / N          # only used for the non-triviality threshold below
    ickw = {'rho': case['rho']} if form == 'rho' else {'initial_infecteds': list(I0), 'initial_recovereds': list(R0)}
    try:
        if form == 'sk0':
            raise StopIteration
        if discrete:
            p = case['p']
            if form == 'rho':
                ar = lambda **k: EoN.Attack_rate_discrete(Pk, p, rho=case['rho'], **k)
            elif form == 'sets':
                ar = lambda **k: EoN.Attack_rate_discrete_from_graph(G, p, initial_infecteds=list(I0), initial_recovereds=list(R0), **k)
            else:
                ar = lambda **k: EoN.Attack_rate_discrete(Pk, p, Sk0=dict(Sk0), phiS0=ic['phiS'], phiR0=ic['phiR'], **k)
            a100, a2000 = ar(), ar(number_its=2000)
            t, S, I, R = EoN.EBCM_discrete_from_graph(G, p, tmax=400, **ickw)
        else:
            tau, gamma = case['tau'], case['gamma']
            if form == 'rho':
                ar = lambda **k: EoN.Attack_rate_cts_time(Pk, tau, gamma, rho=case['rho'], **k)
            elif form == 'sets':
                ar = lambda **k: EoN.Attack_rate_cts_time_from_graph(G, tau, gamma, initial_infecteds=list(I0), initial_recovereds=list(R0), **k)
            else:
                ar = lambda **k: EoN.Attack_rate_cts_time(Pk, tau, gamma, Sk0=dict(Sk0), phiS0=ic['phiS'], phiR0=ic['phiR'], **k)
            a100, a2000 = ar(), ar(number_its=2000)
            (t, S, I, R), bad = _quiet(EoN.EBCM_from_graph, G, tau, gamma, tmax=60.0 / gamma + 200.0, tcount=41, **ickw)
            if bad:
                bump(res, 'discarded_numerical_warnings')
                return
    except StopIteration:
        pass
    except Exception as e:
        viol(res, 'final_size|%s|%s|exception:%s' % ('discrete' if discrete else 'cts', form, simcase.exc_key(e)), {'err': repr(e)[:200]})
        return
    if form != 'sk0':
        bump(res, 'final_size_form_' + form)
        if case['graph'].get('multi') and form == 'sets':
            bump(res, 'final_size_sets_on_multigraph')
    if R0:
        bump(res, 'final_size_with_initially_recovered')
    if abs(a100 - a2000) > 1e-9:
        bump(res, 'final_size_skipped_not_converged')
        return
    if abs(I[-1]) > 1e-7 * N:
        bump(res, 'final_size_skipped_epidemic_not_over')
        return
    # Attack_rate_* = 1 - psihat(omega): the fraction no longer susceptible (counts the initially infected: 1-(1-rho)psi)
    lim = 1 - S[-1] / N
    bump(res, 'final_sizes_compared')
    setmax(res, 'max_final_size_error', abs(a100 - lim))
    if abs(a100 - lim) > 1e-6:
        viol(res, 'Attack_rate_%s|%s|equals_limit_of_dynamics' % ('discrete' if discrete else 'cts_time', form), {'I0': repr(I0), 'R0': repr(R0), 'attack_rate': float(a100), 'dynamic_limit_1-S/N': float(lim), 'R_end/N': float(R[-1] / N),
                                                                                                       'rho': rho, 'graph': case['graph'], 'tau': case['tau'], 'gamma': case['gamma'], 'p': case['p']})
    if lim > rho + 1e-3:
        res['nontrivial'] = 'final:%s:%s:%s' % (discrete, gen.iso_key(case['graph']), rho)
        res['sample'] = {'kind': 'final', 'discrete': discrete, 'graph': case['graph'], 'attack_rate': float(a100), 'limit': float(lim)}


def run_recur(case, res):
    import EoN
    G, lab = gen.build_graph(case['graph'])
    N = float(G.order())
    Pk = odereg.EoN_get_Pk(G)
    p, rho = case['p'], case['rho']
    n = G.order()
    r = random.Random(case['seed'])
    I0 = [lab(i) for i in r.sample(range(n), 2)]
    calls = [('EBCM_discrete_from_graph|rho', lambda: EoN.EBCM_discrete_from_graph(G, p, rho=rho, tmax=12)),
             ('EBCM_discrete_from_graph|sets', lambda: EoN.EBCM_discrete_from_graph(G, p, initial_infecteds=I0, tmin=-2, tmax=10)),
             ('EBCM_pref_mix_discrete_from_graph|rho', lambda: EoN.EBCM_pref_mix_discrete_from_graph(G, p, rho=rho, tmin=1, tmax=12)),
             ('EBCM_discrete_uniform_introduction|rho', lambda: EoN.EBCM_discrete_uniform_introduction(N, lambda x: sum(pk * x ** k for k, pk in Pk.items()),
                                                                                                     lambda x: sum(k * pk * x ** (k - 1) for k, pk in Pk.items() if k), p, rho, tmax=12))]
    for label, f in calls:
        try:
            t, S, I, R = f()
        except Exception as e:
            viol(res, '%s|exception:%s' % (label, simcase.exc_key(e)), {'err': repr(e)[:200]})
            continue
        bump(res, 'recurrences_checked')
        d = float(np.max(np.abs(R[1:] - (R[:-1] + I[:-1]))))
        if d > 1e-9 * N or np.any(np.diff(t) != 1):
            viol(res, '%s|R_next_equals_R_plus_I' % label, {'max_defect': d, 'R': R[:4].tolist(), 'I': I[:4].tolist()})
    res['nontrivial'] = 'recur:%s:%s' % (gen.iso_key(case['graph']), p)
    res['sample'] = {'kind': 'recur', 'graph': case['graph'], 'p': p, 'rho': rho}


def _model_call(name, G, tau, gamma, rho, tmax, tcount, tmin=0):
    import EoN
    f = getattr(EoN, name)
    return _quiet(f, G, tau, gamma, rho=rho, tmin=tmin, tmax=tmin + tmax, tcount=tcount)


def run_tau0(case, res):
    G, lab = gen.build_graph(case['graph'])
    N = float(G.order())
    gamma, rho = case['gamma'], case['rho']
    if max(d for _, d in G.degree()) > 5 or G.order() > 10:
        models = [m for m in TAU0_MODELS if 'pair_based' not in m and 'effective_degree_from' not in m or 'compact_effective' in m]
    else:
        models = TAU0_MODELS
    name = models[case['model_idx'] % len(models)]
    try:
        out, bad = _model_call(name, G, 0.0, gamma, rho, 3.0, 7, tmin=case.get('tmin', 0))
    except Exception as e:
        viol(res, '%s|tau0|exception:%s' % (name, simcase.exc_key(e)), {'err': repr(e)[:200]})
        return
    if bad:
        bump(res, 'discarded_numerical_warnings')
        return
    t, S, I = out[0], np.asarray(out[1]), np.asarray(out[2])
    bump(res, 'tau0_models_checked')
    exp = I[0] * np.exp(-gamma * (t - t[0]))
    d = float(np.max(np.abs(I - exp))) / N
    setmax(res, 'max_tau0_error_over_N', d)
    if d > 1e-4:
        viol(res, '%s|tau0|I_decays_exponentially' % name, {'error_over_N': d, 'I': I[:4].tolist(), 'expected': exp[:4].tolist(), 'gamma': gamma})
    if name.startswith('SIS'):
        if float(np.max(np.abs(S - (N - I)))) > 1e-6 * N:
            viol(res, '%s|tau0|S_equals_N_minus_I' % name, {})
    else:
        if float(np.max(np.abs(S - S[0]))) > 1e-6 * N:
            viol(res, '%s|tau0|S_constant' % name, {'S': S[:4].tolist()})
    res['nontrivial'] = 'tau0:%s:%s:%s' % (name, gen.iso_key(case['graph']), gamma)
    res['sample'] = {'kind': 'tau0', 'model': name, 'graph': case['graph'], 'gamma': gamma, 'error_over_N': d}


def run_gamma0(case, res):
    G, lab = gen.build_graph(case['graph'])
    N = float(G.order())
    tau, rho = case['tau'], case['rho']
    small = max(d for _, d in G.degree()) <= 5 and G.order() <= 10
    pairs = SIS_SIR_PAIRS if small else [p for p in SIS_SIR_PAIRS if 'pair_based' not in p[0] and 'effective_degree' not in p[0] and 'heterogeneous_pairwise' not in p[0]]
    a, b = pairs[case['model_idx'] % len(pairs)]
    try:
        oa, bad1 = _model_call(a, G, tau, 0.0, rho, 2.5, 7, tmin=case.get('tmin', 0))
        ob, bad2 = _model_call(b, G, tau, 0.0, rho, 2.5, 7, tmin=case.get('tmin', 0))
    except Exception as e:
        viol(res, '%s_vs_%s|gamma0|exception:%s' % (a, b, simcase.exc_key(e)), {'err': repr(e)[:200]})
        return
    if bad1 or bad2:
        bump(res, 'discarded_numerical_warnings')
        return
    Sa, Sb = np.asarray(oa[1]), np.asarray(ob[1])
    cut = np.nonzero(~(np.minimum(Sa, Sb) >= 5e-3 * N))[0]
    if len(cut):        # singular closures once S is exhausted (see C06): compare up to there
        Sa, Sb = Sa[:int(cut[0]) + 1], Sb[:int(cut[0]) + 1]
        bump(res, 'singular_tail_cases_truncated')
    bump(res, 'gamma0_pairs_compared')
    if nx.number_of_selfloops(G):
        bump(res, 'gamma0_pairs_on_networks_with_self_loops')
    if case['graph'].get('sparse'):
        bump(res, 'gamma0_pairs_on_networks_with_mean_degree_below_1')
    d = float(np.max(np.abs(Sa - Sb))) / N
    setmax(res, 'max_gamma0_distance_over_N', d)
    if d > 5e-4:
        viol(res, '%s_vs_%s|gamma0|same_S' % (a, b), {'distance_over_N': d, 'S_sis': Sa[-3:].tolist(), 'S_sir': Sb[-3:].tolist(), 'tau': tau, 'rho': rho, 'graph': case['graph']})
    if abs(Sa[0] - Sa[-1]) > 1e-3 * N:
        res['nontrivial'] = 'gamma0:%s:%s:%s' % (a, gen.iso_key(case['graph']), tau)
        res['sample'] = {'kind': 'gamma0', 'models': [a, b], 'graph': case['graph'], 'tau': tau, 'distance_over_N': d}


def run_case(case):
    res = new_result()
    k = case['kind']
    if k == 'tree':
        run_tree(case, res)
    elif k == 'final':
        run_final(case, res, False)
    elif k == 'final_d':
        run_final(case, res, True)
    elif k == 'recur':
        run_recur(case, res)
    elif k == 'tau0':
        run_tau0(case, res)
    else:
        run_gamma0(case, res)
    return res
