"""C03 - Gillespie_simple_contagion realises exactly the user-specified transitions.

kinds
  e2   one random run under the recording RNG proxy: clock rate, cumulative transition-scan thresholds, candidate set, accept thresholds and
       effect of every step vs an independent interpreter of the specification; output (histories, transmissions, counts) == tracked events
  e3   RNG-driven state steering on small (di)graphs: every reachable status vector is expanded (bounded depth), full law read at each
"""
import random, itertools
import numpy as np
from .. import gen, simreg, simcase, specs, rngprobe, generic_e2
from ..markov import ParseError
from ..runner import new_result, viol, bump, case_seed

PID = 'C03'
LEVEL = 'exploration'
RULE = ('e2: spec library (SI, SIS, SIR, SIRS, SEIR, SIV, competing strains, cooperating diseases, voter, same-status inducer, several moves out of one '
        'status, int / tuple statuses) + random specs, rates incl. 0, three weight forms (none / weight_label / rate_function), undirected and directed '
        'graphs n<=10 incl. reciprocal arcs, all label types, return_statuses subsets; e3: every graph (atlas) and every digraph up to the node bound '
        '(3 quick / 3 + sampled 4 thorough) x spec families, RNG decisions enumerated with state memoisation.  Non-trivial = >=1 event; distinct = '
        '(kind, spec, weight form, directedness, graph iso key).')
ASSUMPTIONS = ['transition scan order is spontaneous (sorted) then induced (sorted), as the function documents for reproducibility',
               'self-loops and multigraphs excluded (documented domain)']
BUDGET = {'quick': 170, 'thorough': 1500}
CHUNK = {'quick': 10, 'thorough': 40}
CASE_TIMEOUT = 300
REQUIRED = ['steps_law_checked', 'scan_thresholds_checked', 'selections_checked', 'thresholds_checked', 'clock_draws_checked',
            'terminations_checked', 'outputs_match_tracked_events', 'e3_states_expanded', 'directed_runs', 'rate_function_calls_checked', 'defaultdict_IC_runs', 'endurance_runs_completed']


def gen_cases(tier, seed):
    q = tier == 'quick'
    out = []
    n = 5000 if q else 150000
    for k in range(n):
        cs = case_seed(seed, PID, k)
        r = random.Random(cs)
        c = simreg.random_sim_case(r, 'Gillespie_simple_contagion', nmax=10)
        c['kind'] = 'e2'
        c['full'] = True
        if r.random() < 0.4:
            g = dict(c['graph'])
            d = gen.random_digraph(r, 1, 8)
            g['n'], g['edges'], g['directed'] = d['n'], d['edges'], True
            if c.get('weight_form'):
                g['ew'] = {'ew_': gen.weights(r, len(g['edges']), r.choice(['dyadic', 'nondyadic', 'wide']))}
                g['nw'] = {'nw_': gen.weights(r, g['n'], 'nondyadic')}
            else:
                g.pop('ew', None)
                g.pop('nw', None)
            c['graph'] = g
            c.pop('prehistory', None)
            k2 = len(c['spec']['statuses'])
            c['IC'] = [r.randrange(k2) for _ in range(g['n'])]
        if c.get('weight_form') and r.random() < 0.25 and c['graph']['n'] >= 4:
            # very uneven weights (one contact / one individual hundreds of times heavier than the rest: a hub-like rate next to many light
            # ones), so that a weighted selection would need many proposals - any shortcut taken in that regime is exercised
            g = dict(c['graph'])
            ne, nn_ = len(g['edges']), g['n']
            if ne:
                ew = [r.choice([0.5, 1.0, 1.5]) for _ in range(ne)]
                ew[r.randrange(ne)] = r.choice([300.0, 1000.0])
                g['ew'] = {'ew_': ew}
            nw = [r.choice([0.5, 1.0, 2.0]) for _ in range(nn_)]
            nw[r.randrange(nn_)] = r.choice([200.0, 800.0])
            g['nw'] = {'nw_': nw}
            c['graph'] = g
            c.pop('prehistory', None)
            c['uneven'] = True
        c['tmax'] = c['tmin'] + r.choice([0.5, 2.0, 5.0])
        if c.get('uneven'):
            c['tmax'] = c['tmin'] + r.choice([0.02, 0.05])       # rates of several thousand per unit time: a short horizon keeps the run (and its draw log) small
        out.append(c)
    # larger networks with one dominant weight: candidate lists of 30-45 entries in which the heaviest outweighs the mean by more than 20x
    for j in range(60 if q else 1500):
        cs = case_seed(seed, PID + 'uneven', j)
        r = random.Random(cs)
        c = simreg.random_sim_case(r, 'Gillespie_simple_contagion', nmax=10)
        desc = gen.random_graph(r, 30, 45, kinds=['gnp', 'regular', 'tree', 'star', 'cycle'])
        desc['labels'] = r.choice(gen.LABEL_SCHEMES)
        ne, nn_ = len(desc['edges']), desc['n']
        ew = [r.choice([0.5, 1.0, 1.5]) for _ in range(ne)]
        if ne:
            ew[r.randrange(ne)] = r.choice([300.0, 1000.0])
        nw = [r.choice([0.5, 1.0, 2.0]) for _ in range(nn_)]
        nw[r.randrange(nn_)] = r.choice([200.0, 800.0])
        desc['ew'], desc['nw'] = {'ew_': ew}, {'nw_': nw}
        c['graph'] = desc
        c['weight_form'] = r.choice(['label', 'function'])
        c.pop('prehistory', None)
        c.pop('spont_boost', None)
        c.pop('nbr_boost', None)
        k2 = len(c['spec']['statuses'])
        c['IC'] = [r.randrange(k2) for _ in range(nn_)]
        c.update({'kind': 'e2', 'full': True, 'tmax': c['tmin'] + r.choice([0.05, 0.2]), 'uneven': True})
        out.append(c)
    # one weight 1e12-1e13 times the others (an "instant" transition next to ordinary ones) on models without cycles (the heavy individual fires once
    # and leaves its list for good): whatever the list does to its running total when the heavy entry leaves must keep the light entries' rates.
    # n <= 20 light weights <= 2 sum to < 1e-9 * heavy, the regime in which the library recomputes the total.
    for j in range(24 if q else 400):
        cs = case_seed(seed, PID + 'huge', j)
        r = random.Random(cs)
        c = simreg.random_sim_case(r, 'Gillespie_simple_contagion', nmax=10)
        name = r.choice(['SIR', 'SEIR'])
        sp = specs.spec(name, r)
        desc = gen.random_graph(r, 8, 20, kinds=['gnp', 'regular', 'tree', 'star', 'cycle', 'complete'])
        desc['labels'] = r.choice(gen.LABEL_SCHEMES)
        ne, nn_ = len(desc['edges']), desc['n']
        heavy = r.choice([1e12, 1e13])
        ew = [r.choice([0.5, 1.0, 1.5]) for _ in range(ne)]
        if ne and r.random() < 0.5:
            ew[r.randrange(ne)] = heavy
        nw = [r.choice([0.5, 1.0, 2.0]) for _ in range(nn_)]
        hn = r.randrange(nn_)
        nw[hn] = heavy
        desc['ew'], desc['nw'] = {'ew_': ew}, {'nw_': nw}
        k2 = len(sp['statuses'])
        IC = [r.choice([0, 1, 1, k2 - 2]) for _ in range(nn_)]
        IC[hn] = k2 - 2      # the heavy individual starts in the last status that still has a spontaneous way out (I of SIR / SEIR)
        c.update({'spec': sp, 'spec_name': name, 'graph': desc, 'weight_form': r.choice(['label', 'function']), 'IC': IC, 'return_idx': list(range(k2)),
                  'kind': 'e2', 'full': True, 'tmin': 0, 'tmax': r.choice([0.5, 2.0]), 'huge': True})
        for key in ('prehistory', 'spont_boost', 'nbr_boost'):
            c.pop(key, None)
        out.append(c)
    # endure: a weighted selection that sees K consecutive rejections (positive probability whenever weights differ)
    for j in range(12 if q else 60):
        cs = case_seed(seed, PID + 'endure', j)
        r = random.Random(cs)
        desc = gen.random_graph(r, 5, 10, kinds=['gnp', 'cycle', 'star', 'tree', 'regular'])
        desc['labels'] = r.choice(gen.LABEL_SCHEMES)
        name = r.choice(['SIS', 'SIR', 'SIRS', 'SEIR', 'compete'])
        sp = specs.spec(name, r)
        ks = len(sp['statuses'])
        desc['ew'] = {'ew_': gen.weights(r, len(desc['edges']), 'nondyadic')}
        desc['nw'] = {'nw_': [r.choice([0.1, 0.2, 0.3, 0.7, 1.1, 1.3, 2.3]) for _ in range(desc['n'])]}
        out.append({'kind': 'endure', 'sim': 'Gillespie_simple_contagion', 'graph': desc, 'spec': sp, 'spec_name': name, 'weight_form': r.choice(['label', 'function']),
                    'IC': [r.choice([1, 1, 0]) if name != 'compete' else r.choice([1, 2]) for _ in range(desc['n'])], 'return_idx': list(range(ks)), 'tmin': 0, 'tmax': 1000.0,
                    'full': True, 'seed': cs, 'K': r.choice([150, 1500, 15000] if q else [150, 1500, 15000, 120000])})
    # e3
    names = ['SIS', 'SIR', 'SIRS', 'SEIR', 'compete', 'voter', 'same_inducer', 'multi_out', 'random']
    graphs = [dict(g) for g in gen.atlas(3)]
    for nn in (2, 3):
        graphs += [d for d in gen.all_digraphs(nn) if d['edges']]
    if not q:
        r4 = random.Random(seed + 4)
        graphs += [dict(g) for g in gen.atlas(4, 4)]
        d4 = [d for d in gen.all_digraphs(4) if d['edges']]
        graphs += r4.sample(d4, 500)
    k = 0
    for g in graphs:
        for name in names:
            k += 1
            cs = case_seed(seed, PID + 'e3', k)
            r = random.Random(cs)
            sp = specs.random_spec(r) if name == 'random' else specs.spec(name, r)
            ks = len(sp['statuses'])
            wf = [None, 'label', 'function'][k % 3]
            gg = dict(g)
            gg['labels'] = 'int'
            if wf:
                gg['ew'] = {'ew_': gen.weights(r, len(gg['edges']), 'nondyadic')}
                gg['nw'] = {'nw_': gen.weights(r, gg['n'], 'dyadic')}
            out.append({'kind': 'e3', 'sim': 'Gillespie_simple_contagion', 'graph': gg, 'spec': sp, 'spec_name': name, 'weight_form': wf,
                        'IC': [r.randrange(ks) for _ in range(gg['n'])], 'return_idx': list(range(ks)), 'tmin': 0, 'tmax': 1000.0, 'full': True, 'seed': cs})
    return out


def _check_output(call, out, events, res, tag):
    G = call.G
    by_node = {}
    for (t, v, a, b, s) in events:
        by_node.setdefault(v, []).append((t, a, b))
    for u in G:
        ts, ss = map(list, out.node_history(u))
        got = [(ts[k], ss[k - 1], ss[k]) for k in range(1, len(ts))]
        if ss[:1] != [call.IC[u]] or got != by_node.get(u, []):
            viol(res, tag + '|output_history_equals_drawn_events', {'node': repr(u), 'reported': [ts[:5], list(map(repr, ss[:5]))], 'drawn': [list(map(repr, e)) for e in by_node.get(u, [])[:4]]})
            return False
    tr = [(t, s, v) for (t, v, a, b, s) in events if s is not None]
    if [tuple(x) for x in out.transmissions()] != tr:
        viol(res, tag + '|output_transmissions_equal_induced_events', {'reported': [list(map(repr, x)) for x in list(out.transmissions())[:3]], 'drawn': [list(map(repr, x)) for x in tr[:3]]})
        return False
    bump(res, 'outputs_match_tracked_events')
    return True


def _rate_fn_calls_ok(call, calls, res, tag):
    """rate functions must be evaluated on real nodes / real edges of G (in edge direction), with the user's kwargs"""
    G = call.G
    for node, kw in calls['spont']:
        bump(res, 'rate_function_calls_checked')
        if not G.has_node(node):
            viol(res, tag + '|rate_function_called_on_node', {'node': repr(node)})
            return False
    for s, t, kw in calls['nbr']:
        bump(res, 'rate_function_calls_checked')
        if not G.has_edge(s, t):
            viol(res, tag + '|rate_function_called_along_edge', {'pair': [repr(s), repr(t)], 'directed': G.is_directed()})
            return False
    return True


_RejectDriver = rngprobe.RejectDriver


def run_endure(case, call, oracle, res, tag):
    """a run in which one weighted selection sees K consecutive rejections before a candidate is accepted"""
    from ..markov import SelectionAbandoned
    from .c18 import Tripwires
    import numpy as np
    K = case['K']
    d = _RejectDriver(K)
    fails, counters = [], {}
    npcalls = [0]
    saved_np = {}
    for nm in ('random', 'random_sample', 'rand', 'uniform', 'choice', 'exponential', 'randint', 'multinomial', 'permutation', 'shuffle'):
        f0 = getattr(np.random, nm)
        saved_np[nm] = f0

        def w(*a, _f=f0, **k):
            npcalls[0] += 1
            return _f(*a, **k)
        setattr(np.random, nm, w)
    try:
        with rngprobe.monitor(driver=d) as px:         # (the proxy builds its own generators: outside the tripwires)
            px.min_prob = 0.0
            with Tripwires() as tw:
                try:
                    call.f(*call.args, **call.kw)
                except rngprobe.DepthExceeded:
                    pass
    except Exception as e:
        viol(res, tag + '|endure|exception:%s' % simcase.exc_key(e), {'err': repr(e)})
        return res
    finally:
        for nm, f0 in saved_np.items():
            setattr(np.random, nm, f0)
    bump(res, 'endurance_runs')
    if d.rejections < K:
        bump(res, 'endurance_runs_without_rejectable_candidate')
        return res
    try:
        generic_e2.e2_simple(oracle, call.IC, call.tmin, call.tmax, px.log, fails, counters, partial=True)
    except SelectionAbandoned as e:
        if tw.hits or npcalls[0]:
            bump(res, 'alternative_sampling_path_seen')      # randomness the proxy does not see was consumed: another algorithm, not judged here
            return res
        viol(res, tag + '|selection_abandoned_without_accepting_a_candidate', {'consecutive_rejections_before_giving_up': len(e.props), 'K_driven': K,
                                                                              'spec': case.get('spec_name')})
        return res
    except ParseError as e:
        res['inconclusive'] = 'draw protocol of Gillespie_simple_contagion not recognised: %s' % e
        return res
    for pred, det in fails[:2]:
        viol(res, tag + '|endure|' + pred, dict(det, spec=case.get('spec_name')))
    bump(res, 'endurance_runs_completed')
    res['nontrivial'] = 'endure:%s:%s:%s' % (case.get('spec_name'), K, gen.iso_key(case['graph']))
    res['sample'] = {'kind': 'endure', 'spec': case.get('spec_name'), 'graph': case['graph'], 'consecutive_rejections': K}
    return res


def run_case(case):
    res = new_result()
    call = simreg.build_call(case)
    if case['seed'] % 4 == 0:
        # the documented idiom: IC = defaultdict(lambda: 'S') with only the exceptional nodes set
        import collections
        common = collections.Counter(call.IC.values()).most_common(1)[0][0]
        dd = collections.defaultdict(lambda: common)
        for n_, s_ in call.IC.items():
            if s_ != common:
                dd[n_] = s_
        call.args[3] = dd
        bump(res, 'defaultdict_IC_runs')
    # rebuild spec graphs to get hold of the rate-function call log
    H, J, node_w, edge_w, calls = specs.build_spec_graphs(case['spec'], case.get('weight_form'), call.G, directed=call.G.is_directed(),
                                                          spont_boost=case.get('spont_boost', 1.0), nbr_boost=case.get('nbr_boost', 1.0))
    call.args[1], call.args[2] = H, J
    call.H, call.J = H, J
    oracle = generic_e2.SpecOracle(call.G, H, J, node_w, edge_w)
    wf = case.get('weight_form') or 'unweighted'
    dirn = 'directed' if call.G.is_directed() else 'undirected'
    tag = 'Gillespie_simple_contagion|%s|%s' % (wf, dirn)
    nodes = list(call.G)
    if call.G.is_directed():
        bump(res, 'directed_runs')
    if case['kind'] == 'e2':
        fails, counters = [], {}
        try:
            with rngprobe.monitor(seed=case['seed']) as px:
                out = call.f(*call.args, **call.kw)
        except Exception as e:
            viol(res, tag + '|exception:%s' % simcase.exc_key(e), {'err': repr(e), 'spec': case.get('spec_name')})
            return res
        if case.get('weight_form') == 'function' and not _rate_fn_calls_ok(call, calls, res, tag):
            return res
        try:
            events = generic_e2.e2_simple(oracle, call.IC, call.tmin, call.tmax, px.log, fails, counters, two_level=bool(case.get('huge')))
        except ParseError as e:
            res['inconclusive'] = 'draw protocol of Gillespie_simple_contagion not recognised: %s' % e
            return res
        for k, v in counters.items():
            bump(res, k, v)
        for pred, det in fails:
            det = dict(det)
            det['spec'] = case.get('spec_name')
            viol(res, tag + '|' + pred, det)
        if not fails:
            _check_output(call, out, events, res, tag)
        if events:
            res['nontrivial'] = 'e2:%s:%s:%s:%s' % (case.get('spec_name'), wf, dirn, gen.iso_key(case['graph']))
            res['sample'] = {'kind': 'e2', 'spec': case.get('spec_name'), 'weight_form': wf, 'directed': call.G.is_directed(), 'graph': case['graph'],
                             'events': len(events), 'first_events': [[e[0], repr(e[1]), repr(e[2]), repr(e[3]), repr(e[4])] for e in events[:3]]}
        return res
    if case['kind'] == 'endure':
        return run_endure(case, call, oracle, res, tag)
    # ---- e3
    visited = set()
    allfails = []
    ctr = {}
    nruns = [0]
    completed = [0]

    def run(d):
        d.stop_after = 12
        aborted = False
        with rngprobe.monitor(driver=d) as px:
            try:
                out = call.f(*call.args, **call.kw)
            except rngprobe.DepthExceeded:
                aborted = True
                out = None
        annot, fails = {}, []
        events = generic_e2.e2_simple(oracle, call.IC, call.tmin, call.tmax, px.log, fails, ctr, annot, visited, nodes, partial=aborted)
        allfails.extend(fails)
        nruns[0] += 1
        if not aborted and not fails:
            completed[0] += 1
            _check_output(call, out, events, res, tag)
        return annot

    def key(annot, d, i):
        return annot.get(d.decisions[i]['info']['logpos'], ('unannotated',))
    try:
        for script, d, out in rngprobe.explore(run, key, max_runs=30000, expo_value=0.25):
            if allfails or res['violations']:
                break
    except ParseError as e:
        res['inconclusive'] = 'draw protocol of Gillespie_simple_contagion not recognised: %s' % e
        return res
    except rngprobe.DepthExceeded as e:
        bump(res, 'e3_bound_hit')
    except Exception as e:
        viol(res, tag + '|steered|exception:%s' % simcase.exc_key(e), {'err': repr(e), 'spec': case.get('spec_name')})
        return res
    for k, v in ctr.items():
        bump(res, k, v)
    for pred, det in allfails[:3]:
        det = dict(det)
        det['spec'] = case.get('spec_name')
        viol(res, tag + '|' + pred, det)
    bump(res, 'e3_states_expanded', len(visited))
    bump(res, 'e3_runs', nruns[0])
    if not allfails and not res['violations'] and not res['counters'].get('e3_bound_hit'):
        start = tuple(call.IC[u] for u in nodes)
        seen, stack, live = {start}, [start], set()
        while stack and len(seen) < 20000:
            st = stack.pop()
            sd = dict(zip(nodes, st))
            en = oracle.enabled(sd)
            alive = False
            for kind_, tr, cands in en:
                if oracle.rate[tr] <= 0:
                    continue
                for cand, w in cands.items():
                    if w <= 0:
                        continue
                    alive = True
                    nd = dict(sd)
                    if kind_ == 's':
                        nd[cand] = tr[1]
                    else:
                        nd[cand[1]] = tr[1][1]
                    nt = tuple(nd[x] for x in nodes)
                    if nt not in seen:
                        seen.add(nt)
                        stack.append(nt)
            if alive:
                live.add(st)
        bump(res, 'e3_states_reachable', len(live))
        if visited != live:
            viol(res, tag + '|state_coverage', {'reachable_not_expanded': [list(map(repr, x)) for x in sorted(live - visited, key=repr)[:3]],
                                                'expanded_not_reachable': [list(map(repr, x)) for x in sorted(visited - live, key=repr)[:3]], 'spec': case.get('spec_name')})
    if visited:
        res['nontrivial'] = 'e3:%s:%s:%s:%s' % (case.get('spec_name'), wf, dirn, sorted(map(tuple, case['graph']['edges'])))
        res['sample'] = {'kind': 'e3', 'spec': case.get('spec_name'), 'graph': case['graph'], 'states_expanded': len(visited), 'scripted_runs': nruns[0]}
    return res
