"""C18 - simulations are reproducible from the random seeds.

kinds
  repeat   every simulator, both modes: two calls with identically seeded random / numpy.random give byte-identical output; the generator
           states after the two calls are identical; entropy tripwires (os.urandom, SystemRandom, private Random()/RandomState/default_rng,
           re-seeding) stay at zero during the call
  modes    continuous-time simulators: arrays == summary of the full-data object under the same seeds (draws do not depend on the flag)
  hash     continuous-time simulators with string node names / string statuses re-run in subprocesses under several PYTHONHASHSEED values
"""
import os, sys, random, json, subprocess, hashlib
import numpy as np
from .. import gen, simreg, simcase, boot
from ..runner import new_result, viol, bump, case_seed
from ..hashseed_worker import canon_bytes
from ..oracles.history import merge_equal_times

PID = 'C18'
LEVEL = 'exploration'
RULE = ('repeat/modes: 12 simulators x {arrays, full} x seeded random/boundary inputs (graphs n<=14, all label types); hash: the 8 continuous-time '
        'simulators on graphs with string node names (and string statuses for the generic ones), batches re-run in fresh interpreters with '
        'PYTHONHASHSEED in {0,1,2,...} (3 values quick / 24 thorough).  Non-trivial = the run contains >=3 events; distinct = (kind, simulator, '
        'mode, graph iso key).')
ASSUMPTIONS = ['initial sets are passed as lists (a set argument legitimately iterates in hash order)', 'user callbacks supplied by the harness are themselves deterministic']
BUDGET = {'quick': 160, 'thorough': 1500}
CHUNK = {'quick': 25, 'thorough': 100}
CASE_TIMEOUT = 1800
REQUIRED = ['aborted_runs_injected', 'uneven_weight_runs', 'repeat_pairs_compared', 'tripwire_calls_monitored', 'mode_pairs_compared', 'hash_batches', 'hash_digests_compared']
CONT = [s for s in simreg.ALL_SIMS if s not in simreg.DISCRETE]


def gen_cases(tier, seed):
    q = tier == 'quick'
    out = []
    n = 2400 if q else 60000
    for k in range(n):
        cs = case_seed(seed, PID, k)
        r = random.Random(cs)
        sim = simreg.ALL_SIMS[k % len(simreg.ALL_SIMS)]
        c = simreg.random_sim_case(r, sim)
        c['kind'] = 'repeat' if (k // len(simreg.ALL_SIMS)) % 3 else 'modes'
        if c['kind'] == 'modes' and sim in simreg.DISCRETE:
            c['kind'] = 'repeat'
        c['full'] = r.random() < 0.5
        if c.get('I0_form') in ('set', 'frozenset'):
            c['I0_form'] = 'list'
        if c.get('R0_form') in ('set', 'iterator', 'generator'):
            c['R0_form'] = 'list'
        c['ic_defaultdict'] = (k % 5 == 4)
        if sim == 'Gillespie_complex_contagion' and (k // len(simreg.ALL_SIMS)) % 2 == 0:
            # a user model whose transition_choice sometimes answers with the node's current status (a failed attempt): such a null event is an
            # event of the run in both return modes (a row of the arrays, an entry of the node's history)
            c['cmodel'] = 'lazy'
            c['IC'] = [c['IC'][i] if i else 1 for i in range(len(c['IC']))]
            if c.get('tmax') == 'inf':
                c['tmax'] = c['tmin'] + 4
        if sim == 'Gillespie_simple_contagion' and c['kind'] == 'modes' and r.random() < 0.5 and len(c['spec']['statuses']) >= 2:
            # only some statuses reported (SEIR reporting S and R): both return modes still describe the same run, event by event
            k2 = len(c['spec']['statuses'])
            c['return_idx'] = sorted(r.sample(range(k2), r.randint(1, k2 - 1)))
        if sim in ('Gillespie_SIR', 'Gillespie_SIS') and (k // len(simreg.ALL_SIMS)) % 4 == 1:
            # very uneven weights, so that weighted selection regularly needs hundreds of proposals (any give-up / fallback path of the
            # sampler is exercised): a hub with many light contacts and one heavy one, or a heavy bridge followed by light contacts
            lbl = c['graph']['labels']
            if r.random() < 0.5:
                L = r.choice([100, 200])
                g = {'n': L + 2, 'edges': [[0, i] for i in range(1, L + 2)], 'labels': lbl, 'kind': 'hubstar'}
                ew = [1.0] * (L + 1)
                ew[r.randrange(L + 1)] = 300.0
                tau = 0.01
            else:
                L = r.randint(5, 12)
                g = {'n': L + 2, 'edges': [[0, 1]] + [[1, i] for i in range(2, L + 2)], 'labels': lbl, 'kind': 'bridge'}
                ew = [1000.0] + [1.0] * L
                tau = 1.0
            g['ew'] = {simcase.TW: ew}
            c['graph'] = g
            c.update({'wm': 'edge', 'tau': tau, 'gamma': 1.0, 'uneven': True, 'I0': [0], 'R0': [], 'I0_form': 'list', 'R0_form': 'list', 'tmin': 0,
                      'tmax': 'inf' if sim == 'Gillespie_SIR' else 3.0})
            c.pop('R0_explicit_empty', None)
            c.pop('prehistory', None)
        out.append(c)
    nb = 6 if q else 32
    for b in range(nb):
        cs = case_seed(seed, PID + 'hash', b)
        r = random.Random(cs)
        batch = []
        for j in range(40 if q else 80):
            sim = CONT[j % len(CONT)]
            c = simreg.random_sim_case(r, sim, nmax=16)
            if sim == 'Gillespie_simple_contagion' and (j // len(CONT)) % 2 == 1:
                # directed contact network with several predecessors per node (bookkeeping over predecessor / successor collections)
                nd = r.randint(6, 10)
                pd = r.choice([0.35, 0.5])
                g = {'n': nd, 'edges': [[a, b] for a in range(nd) for b in range(nd) if a != b and r.random() < pd], 'directed': True}
                if c.get('weight_form'):
                    g['ew'] = {'ew_': gen.weights(r, len(g['edges']), 'nondyadic')}
                    g['nw'] = {'nw_': gen.weights(r, nd, 'nondyadic')}
                c['graph'] = g
                c['IC'] = [r.randrange(len(c['spec']['statuses'])) for _ in range(nd)]
                c.pop('prehistory', None)
                c['tmax'] = c['tmin'] + 6
            c['graph']['labels'] = 'str'
            c['full'] = (j // len(CONT)) % 2 == 0
            c['I0_form'] = 'list'
            c['R0_form'] = 'list'
            if c['tmax'] != 'inf' and c['tmax'] - c['tmin'] < 1:
                c['tmax'] = c['tmin'] + 3
            if sim in simreg.SIR_SIMS + simreg.SIS_SIMS and (j // len(CONT)) % 3 == 1:
                # index cases left to the library (rho, or the default single node), with or without initially recovered nodes:
                # the draw comes from the seeded generators only
                c['rho'] = r.choice([0.15, 0.3])
                if sim in simreg.SIR_SIMS:
                    # initial_recovereds given as an (empty) collection: with a non-empty one the library may draw a recovered node as
                    # index case (its docstring: no test for consistency) and the run is then ill-defined - it can even fail to end
                    c['R0'] = []
                    c['R0_explicit_empty'] = True
            batch.append(c)
        out.append({'kind': 'hash', 'batch': batch, 'hashseeds': list(range(3)) if q else [0, 1, 2, 3, 5, 7, 11, 13, 17, 19, 23, 29, 31, 37, 41, 43, 47, 53, 59, 61, 67, 71, 73, 79],
                    'seed': cs})
    return out


_GEN_TYPES = (np.random.Generator, np.random.RandomState, np.random.BitGenerator, random.Random)


class Tripwires(object):
    def __init__(self):
        self.hits = {}

    def _wrap(self, obj, name, label):
        orig = getattr(obj, name)
        hits = self.hits

        def w(*a, **k):
            hits[label] = hits.get(label, 0) + 1
            return orig(*a, **k)
        setattr(obj, name, w)
        return (obj, name, orig)

    def __enter__(self):
        import os as _os
        import random as _r
        self.saved = [self._wrap(_os, 'urandom', 'os.urandom'), self._wrap(_r, 'seed', 'random.seed'),
                      self._wrap(_r, 'SystemRandom', 'random.SystemRandom'), self._wrap(_r, 'Random', 'random.Random()'),
                      self._wrap(np.random, 'seed', 'numpy.random.seed'), self._wrap(np.random, 'default_rng', 'numpy.random.default_rng'),
                      self._wrap(np.random, 'RandomState', 'numpy.random.RandomState')]
        # generator objects the library created earlier (at import, cached on a module or class): every method call on them is a draw
        # from a source the two seeds do not control
        self.spied = []
        hits = self.hits
        for mname, mod in list(sys.modules.items()):
            if mod is None or not (mname == 'EoN' or mname.startswith('EoN.')):
                continue
            holders = [mod] + [v for v in vars(mod).values() if isinstance(v, type) and getattr(v, '__module__', '') == mname]
            for h in holders:
                for aname, val in list(vars(h).items()):
                    if isinstance(val, _GEN_TYPES) and not isinstance(val, _Spy):
                        try:
                            setattr(h, aname, _Spy(val, '%s.%s' % (getattr(h, '__name__', mname), aname), hits))
                            self.spied.append((h, aname, val))
                        except (AttributeError, TypeError):
                            pass
        return self

    def __exit__(self, *exc):
        for obj, name, orig in self.saved:
            setattr(obj, name, orig)
        for h, aname, val in self.spied:
            setattr(h, aname, val)
        return False


class _Spy(object):
    def __init__(self, target, label, hits):
        object.__setattr__(self, '_t', target)
        object.__setattr__(self, '_l', label)
        object.__setattr__(self, '_h', hits)

    def __getattr__(self, name):
        a = getattr(self._t, name)
        if callable(a):
            def w(*args, **kw):
                k = 'private generator %s.%s' % (self._l, name)
                self._h[k] = self._h.get(k, 0) + 1
                return a(*args, **kw)
            return w
        return a


class _Injected(BaseException):
    pass


class _FaultyRandom(object):
    """stands in for the module `random` inside EoN.simulation: passes everything through and raises at the k-th call"""
    def __init__(self, k):
        self._k = k
        self._n = 0

    def __getattr__(self, name):
        a = getattr(random, name)
        if not callable(a):
            return a

        def w(*args, **kw):
            self._n += 1
            if self._n >= self._k:
                raise _Injected()
            return a(*args, **kw)
        return w


def _aborted_run(case, res):
    import EoN.simulation as sim
    c = dict(case)
    c.pop('prehistory', None)
    other = simreg.build_call(c)           # its own argument objects: only state kept inside the library can leak
    k = 1 + (case['seed'] // 3) % 12
    saved = sim.random
    sim.random = _FaultyRandom(k)
    try:
        simcase.seed_all(case['seed'] + 5)
        other.f(*other.args, **other.kw)
        bump(res, 'aborted_runs_finished_before_the_fault')
    except _Injected:
        bump(res, 'aborted_runs_injected')
    except Exception:
        bump(res, 'aborted_runs_other_exception')
    finally:
        sim.random = saved


def _digest(call, out):
    return canon_bytes(call, out)


def run_case(case):
    res = new_result()
    kind = case['kind']
    if kind == 'hash':
        return run_hash(case, res)
    sim = case['sim']
    mode = 'full' if case.get('full') else 'arrays'
    call = simreg.build_call(case)
    if case.get('ic_defaultdict') and sim in ('Gillespie_simple_contagion', 'Gillespie_complex_contagion'):
        import collections
        pos = 3 if sim == 'Gillespie_simple_contagion' else 4
        IC = call.args[pos]
        common = collections.Counter(IC.values()).most_common(1)[0][0]
        dd = collections.defaultdict(lambda: common)
        for n_, s_ in IC.items():
            if s_ != common:
                dd[n_] = s_
        call.args[pos] = dd
    try:
        simcase.seed_all(case['seed'])
        with Tripwires() as tw:
            a = call.f(*call.args, **call.kw)
        bump(res, 'tripwire_calls_monitored')
        if case.get('uneven'):
            bump(res, 'uneven_weight_runs')
        st_a = (random.getstate(), np.random.get_state()[1].tobytes(), np.random.get_state()[2])
        if case['seed'] % 3 == 0:
            # between the two calls another run of the same simulator dies half-way (Ctrl-C, an exception from a user callback, ...):
            # an exception is injected at the k-th draw from the random module.  Nothing of the dead run may leak into the next call.
            _aborted_run(case, res)
        # "repeated calls": the caller naturally passes the very same argument objects again (graph, IC mapping, spec graphs, containers)
        call2 = call
        simcase.seed_all(case['seed'])
        b = call2.f(*call2.args, **call2.kw)
        st_b = (random.getstate(), np.random.get_state()[1].tobytes(), np.random.get_state()[2])
        simcase.seed_all(case['seed'])
        b3 = call.f(*call.args, **call.kw)
        third_same = _digest(call, b3) == _digest(call, a)
    except Exception as e:
        viol(res, '%s|%s|exception:%s' % (sim, mode, simcase.exc_key(e)), {'err': repr(e)})
        return res
    if tw.hits:
        viol(res, '%s|entropy_source_other_than_the_two_seeded_generators' % sim, {'uses': tw.hits})
    da, db = _digest(call, a), _digest(call2, b)
    bump(res, 'repeat_pairs_compared')
    if da != db or not third_same:
        viol(res, '%s|%s|repeated_call_differs' % (sim, mode), {'digest_1': da[:16], 'digest_2': db[:16], 'third_call_equal_to_first': third_same})
    elif st_a != st_b:
        viol(res, '%s|%s|generator_state_after_call_differs' % (sim, mode), {})
    if kind == 'modes':
        c2 = dict(case)
        c2['full'] = not case.get('full')
        call3 = simreg.build_call(c2)
        try:
            simcase.seed_all(case['seed'])
            c = call3.f(*call3.args, **call3.kw)
        except Exception as e:
            viol(res, '%s|modes|exception:%s' % (sim, simcase.exc_key(e)), {'err': repr(e)})
            return res
        full, arrs = (a, c) if case.get('full') else (c, a)
        t, D = full.summary()
        sts = ['S', 'I', 'R'] if call.model == 'SIR' else (['S', 'I'] if call.model == 'SIS' else list(call.return_statuses))
        T, C = merge_equal_times(np.asarray(arrs[0]).tolist(), [np.asarray(x).tolist() for x in arrs[1:]])
        bump(res, 'mode_pairs_compared')
        if list(t) != T or any([int(x) for x in D[s]] != C[i] for i, s in enumerate(sts)):
            viol(res, '%s|result_depends_on_return_full_data' % sim, {'summary_t': list(t)[:5], 'arrays_t': T[:5]})
    n_events = (len(a.t()) if hasattr(a, 't') else len(a[0]))
    if n_events >= 3:
        res['nontrivial'] = '%s:%s:%s:%s' % (kind, sim, mode, gen.iso_key(case['graph']))
        res['sample'] = {'kind': kind, 'sim': sim, 'mode': mode, 'graph': case['graph'], 'digest': da[:16], 'rows': n_events}
    return res


def run_hash(case, res):
    worker = os.path.join(boot.VERIF, 'vf', 'hashseed_worker.py')
    payload = json.dumps(case['batch'])
    results = {}
    for hs in case['hashseeds']:
        env = dict(os.environ)
        env['PYTHONHASHSEED'] = str(hs)
        env['MPLBACKEND'] = 'Agg'
        try:
            p = subprocess.run([sys.executable, worker], input=payload, capture_output=True, text=True, env=env, timeout=600)
        except subprocess.TimeoutExpired:
            res['inconclusive'] = 'hash-seed worker timed out'
            return res
        if p.returncode != 0:
            res['inconclusive'] = 'hash-seed worker failed: %s' % p.stderr.strip().splitlines()[-1:]
            return res
        results[hs] = json.loads(p.stdout)
    bump(res, 'hash_batches')
    ref_hs = case['hashseeds'][0]
    ref = results[ref_hs]
    for j, c in enumerate(case['batch']):
        for hs in case['hashseeds'][1:]:
            bump(res, 'hash_digests_compared')
            if results[hs][j] != ref[j]:
                viol(res, '%s|%s|output_depends_on_PYTHONHASHSEED' % (c['sim'], 'full' if c.get('full') else 'arrays'),
                     {'hashseeds': [ref_hs, hs], 'digests': [ref[j][:16], results[hs][j][:16]], 'case': c})
                break
        if str(ref[j]).startswith('EXC:'):
            if c.get('rho') is not None and c.get('R0'):
                # rho together with initially recovered nodes: rejected by the event-driven family, "no test for consistency" elsewhere
                # (a drawn index case may be one of the recovered nodes) - the same refusal under every hash seed is reproducible
                bump(res, 'rho_with_recovered_nodes_refused_consistently')
            else:
                viol(res, '%s|hash|exception:%s' % (c['sim'], ref[j][4:]), {'case': c})
    res['nontrivial'] = 'hash:%d' % case['seed']
    res['sample'] = {'kind': 'hash', 'batch_size': len(case['batch']), 'hashseeds': case['hashseeds'], 'first_digest': ref[0][:16]}
    return res
