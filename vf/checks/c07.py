"""C07 - equivalent ODE models agree (differential monitoring of model families on equal inputs)."""
import random, warnings
import numpy as np
import networkx as nx
from .. import gen, odereg, simcase
from ..runner import new_result, viol, bump, setmax, case_seed

PID = 'C07'
LEVEL = 'exploration'
TOL = 5e-4      # x N ; observed distances on the unchanged tree are <= 1e-5 N, a wrong coefficient moves curves by ~1e-2 N
RULE = ('families: (A) EBCM / SIR compact pairwise / SIR super-compact pairwise / SIR effective degree / SIR compact effective degree with rho on random degree '
        'distributions (max degree <= 5 for the effective-degree system); (B) EBCM vs EBCM_pref_mix and EBCM_discrete vs EBCM_pref_mix_discrete with '
        'uncorrelated mixing P(k2|k1)=k2 P(k2)/<k>; (C) on k-regular graphs k=1..6: heterogeneous pairwise = compact pairwise = node-level pair-based = '
        'homogeneous pairwise, SIS and SIR; (D) heterogeneous mean-field = individual-based = homogeneous mean-field, SIS and SIR.  Max-norm distance of S, I '
        '(, R) on the common time grid, tolerance 5e-4 N.  Non-trivial = I moves by > 1e-3 N; distinct = (family, degree sequence key, rate class).')
ASSUMPTIONS = ['agreement is not correctness: a common-mode error is invisible here (C08 anchors the families to ground truth)',
               'tolerance 5e-4 N calibrated on the unchanged tree (>=100x margin); cases with solver warnings are discarded']
BUDGET = {'quick': 170, 'thorough': 1500}
CHUNK = {'quick': 6, 'thorough': 20}
CASE_TIMEOUT = 300
REQUIRED = ['direct_dense_heterogeneous_pairwise_calls', 'node_level_models_with_shuffled_nodelist', 'graphs_edited_in_place_after_earlier_calls', 'multigraph_inputs', 'familyA_compared', 'familyB_compared', 'familyB_discrete_compared', 'familyC_SIR_compared', 'familyC_SIS_compared', 'familyD_SIR_compared',
            'familyD_SIS_compared', 'pairs_compared']


def gen_cases(tier, seed):
    n = {'quick': 3000, 'thorough': 60000}[tier]
    out = []
    fams = ['A', 'A', 'B', 'Bd', 'C_SIR', 'C_SIS', 'D_SIR', 'D_SIS']
    for k in range(n):
        cs = case_seed(seed, PID, k)
        r = random.Random(cs)
        fam = fams[k % len(fams)]
        c = {'family': fam, 'seed': cs, 'tau': r.choice([0.2, 0.5, 1.0, 1.6]), 'gamma': r.choice([0.3, 1.0, 2.0]), 'rho': r.choice([0.02, 0.05, 0.1, 0.3, 0.3, 0.0, None]),      # None: documented default rho = 1/N
            
             'p': r.choice([0.15, 0.4, 0.8]), 'tspan': r.choice([4.0, 8.0]), 'tcount': r.choice([9, 17]), 'tmin': r.choice([0, 0, 1.5])}
        if fam in ('A', 'B', 'Bd'):
            nn = r.randint(8, 40)
            degs = [r.choice([1, 1, 2, 2, 3, 3, 4, 5]) for _ in range(nn)]
            if sum(degs) % 2:
                degs[0] += 1
            g = nx.Graph(nx.configuration_model(degs, seed=r.randrange(10 ** 9)))
            g.remove_edges_from(nx.selfloop_edges(g))
            c['graph'] = {'n': nn, 'edges': sorted([sorted(e) for e in g.edges()]), 'labels': r.choice(gen.LABEL_SCHEMES), 'decoy': r.random() < 0.3}
            if k % 5 == 4:
                # the raw output of nx.configuration_model (a MultiGraph with parallel edges and self-loops) is how the library's own
                # documentation feeds degree-based models; degrees count edge ends there
                mg = nx.configuration_model(degs, seed=r.randrange(10 ** 9))
                c['graph'] = {'n': nn, 'edges': sorted([sorted(e) for e in mg.edges()]), 'labels': r.choice(gen.LABEL_SCHEMES), 'multi': True}
                g = mg
            if max(dict(g.degree()).values()) > 6 or g.number_of_edges() < 3:
                c['graph'] = {'n': 6, 'edges': [[0, 1], [1, 2], [2, 3], [3, 4], [4, 5], [5, 0], [0, 3]], 'labels': 'int'}
        else:
            kk = r.choice([1, 2, 3, 4, 5, 6])
            nmax = 8 if fam.startswith('C') else 16
            nn = r.randint(max(kk + 1, 4), max(kk + 2, nmax))
            if (nn * kk) % 2:
                nn += 1
            g = nx.random_regular_graph(kk, nn, seed=r.randrange(10 ** 9))
            c['graph'] = {'n': nn, 'edges': sorted([sorted(e) for e in g.edges()]), 'labels': r.choice(gen.LABEL_SCHEMES), 'k': kk, 'decoy': r.random() < 0.3}
        if not c['graph'].get('multi') and r.random() < 0.25:
            ph = gen.make_prehistory(r, c['graph'])
            if ph:
                c['prehistory'] = ph
        out.append(c)
    return out


def _warmup(G, lab):
    # the models have been evaluated before on this very graph object (then edited in place)
    import EoN
    with warnings.catch_warnings():
        warnings.simplefilter('ignore')
        for nm in ('EBCM_from_graph', 'SIR_homogeneous_pairwise_from_graph', 'SIS_compact_pairwise_from_graph', 'EBCM_pref_mix_from_graph',
                   'SIR_super_compact_pairwise_from_graph'):
            try:
                getattr(EoN, nm)(G, 0.8, 1.0, rho=0.1, tmax=1.0, tcount=3)
            except Exception:
                pass
        try:
            EoN.EBCM_discrete_from_graph(G, 0.4, rho=0.1, tmax=2)
            EoN.estimate_R0(G, transmissibility=0.5)
        except Exception:
            pass


def _run(name, case, G, extra=None):
    import EoN
    f = getattr(EoN, name)
    kw = dict(tmin=case['tmin'], tmax=case['tmin'] + case['tspan'], tcount=case['tcount'])
    if extra:
        kw.update(extra)
    return f, kw


def run_case(case):
    import EoN
    res = new_result()
    if case.get('prehistory'):
        G, lab = gen.build_graph_with_history(case['graph'], case['prehistory'], _warmup)
        bump(res, 'graphs_edited_in_place_after_earlier_calls')
    else:
        G, lab = gen.build_graph(case['graph'])
    N = float(G.order())
    if case['graph'].get('multi'):
        bump(res, 'multigraph_inputs')
    tau, gamma, rho = case['tau'], case['gamma'], case['rho']
    fam = case['family']
    tk = dict(tmin=case['tmin'], tmax=case['tmin'] + case['tspan'], tcount=case['tcount'])
    curves = {}
    errs = {}

    def call(label, f, *a, **kw):
        with warnings.catch_warnings(record=True) as wl:
            warnings.simplefilter('always')
            try:
                with np.errstate(all='warn'):
                    out = f(*a, **kw)
            except Exception as e:
                errs[label] = e
                return
        if any(issubclass(w.category, RuntimeWarning) or 'ODEint' in str(w.category) for w in wl):
            errs[label] = 'warn'
            return
        curves[label] = [np.asarray(x, dtype=float) for x in out[1:4]]
    Pk = odereg.EoN_get_Pk(G)
    if fam == 'A':
        for nm in ['EBCM_from_graph', 'SIR_compact_pairwise_from_graph', 'SIR_super_compact_pairwise_from_graph', 'SIR_effective_degree_from_graph',
                   'SIR_compact_effective_degree_from_graph']:
            call(nm, getattr(EoN, nm), G, tau, gamma, rho=rho, **tk)
        ncomp = 3
    elif fam == 'B':
        call('EBCM_from_graph', EoN.EBCM_from_graph, G, tau, gamma, rho=rho, **tk)
        Pnk = odereg.uncorrelated_Pnk(Pk)
        if case['seed'] % 2:
            # a parameter sweep re-uses the same Pk / Pnk objects: an earlier call (other tau, other rho) must not colour this one
            with warnings.catch_warnings():
                warnings.simplefilter('ignore')
                try:
                    EoN.EBCM_pref_mix(N, Pk, Pnk, 0.5 * tau + 0.1, gamma + 0.3, rho=0.35, tmin=0, tmax=1.0, tcount=4)
                    EoN.EBCM_pref_mix_discrete(N, Pk, Pnk, 0.4, rho=0.25, tmin=0, tmax=3)
                except Exception:
                    pass
            bump(res, 'pref_mix_calls_after_earlier_calls_on_the_same_objects')
        call('EBCM_pref_mix', EoN.EBCM_pref_mix, N, Pk, Pnk, tau, gamma, rho=rho, **tk)
        ncomp = 3
    elif fam == 'Bd':
        t0 = int(case['tmin'])
        call('EBCM_discrete_from_graph', EoN.EBCM_discrete_from_graph, G, case['p'], rho=rho, tmin=t0, tmax=t0 + 8)
        Pnk = odereg.uncorrelated_Pnk(Pk)
        if case['seed'] % 2:
            with warnings.catch_warnings():
                warnings.simplefilter('ignore')
                try:
                    EoN.EBCM_pref_mix(N, Pk, Pnk, 0.7, 1.3, rho=0.35, tmin=0, tmax=1.0, tcount=4)
                    EoN.EBCM_pref_mix_discrete(N, Pk, Pnk, 0.4, rho=0.25, tmin=0, tmax=3)
                except Exception:
                    pass
            bump(res, 'pref_mix_calls_after_earlier_calls_on_the_same_objects')
        call('EBCM_pref_mix_discrete', EoN.EBCM_pref_mix_discrete, N, Pk, Pnk, case['p'], rho=rho, tmin=t0, tmax=t0 + 8)
        ncomp = 3
    elif fam in ('C_SIR', 'C_SIS'):
        m = fam[2:]
        rr = random.Random(case['seed'] + 7)
        for nm in ['%s_heterogeneous_pairwise_from_graph', '%s_compact_pairwise_from_graph', '%s_pair_based', '%s_homogeneous_pairwise_from_graph']:
            nm = nm % m
            extra = {}
            if nm.endswith('pair_based') and case['seed'] % 2:
                # node-level models take the order of their per-node output from `nodelist`: any order describes the same model
                nl = list(G)
                rr.shuffle(nl)
                extra['nodelist'] = nl
                bump(res, 'node_level_models_with_shuffled_nodelist')
            call(nm, getattr(EoN, nm), G, tau, gamma, rho=rho, **dict(tk, **extra))
        if not case['graph'].get('multi'):
            # the heterogeneous pairwise model called directly in its default form (Ks=None: arrays indexed by degree 0..k, the classes
            # below k empty), fed with the same uniformly random initial condition
            dc = odereg.build({'entry': '%s_heterogeneous_pairwise' % m, 'graph': dict(case['graph']), 'tau': tau, 'gamma': gamma, 'ic': 'rho',
                               'rho': (rho if rho is not None else 1.0 / N), 'tmin': case['tmin'], 'tspan': case['tspan'], 'tcount': case['tcount'], 'dense_Ks': True})
            call('%s_heterogeneous_pairwise(direct, Ks=None)' % m, dc.f, *dc.args, **dc.kw)
            bump(res, 'direct_dense_heterogeneous_pairwise_calls')
        ncomp = 3 if m == 'SIR' else 2
    else:
        m = fam[2:]
        for nm in ['%s_heterogeneous_meanfield_from_graph', '%s_individual_based', '%s_homogeneous_meanfield_from_graph']:
            nm = nm % m
            extra = {}
            if 'individual' in nm and case['seed'] % 2:
                nl = list(G)
                random.Random(case['seed'] + 7).shuffle(nl)
                extra['nodelist'] = nl
                bump(res, 'node_level_models_with_shuffled_nodelist')
            call(nm, getattr(EoN, nm), G, tau, gamma, rho=((1.0 / N) if (rho is None and 'individual' in nm) else rho), **dict(tk, **extra))   # individual_based: rho required
        ncomp = 3 if m == 'SIR' else 2
    for label, e in errs.items():
        if e == 'warn':
            bump(res, 'discarded_numerical_warnings')
            return res
    for label, e in errs.items():
        viol(res, '%s|%s|exception:%s' % (fam, label, simcase.exc_key(e)), {'err': repr(e)[:200], 'graph': case['graph'], 'tau': tau, 'gamma': gamma, 'rho': rho})
    if errs:
        return res
    labels = list(curves)
    ref = labels[0]
    worst = 0.0
    for other in labels[1:]:
        bump(res, 'pairs_compared')
        d = max(float(np.max(np.abs(curves[ref][i] - curves[other][i]))) for i in range(ncomp)) / N
        worst = max(worst, d)
        if not np.isfinite(d) or d > TOL:
            i = int(np.argmax([float(np.max(np.abs(curves[ref][j] - curves[other][j]))) for j in range(ncomp)]))
            viol(res, '%s|%s_vs_%s|curves_agree' % (fam, ref, other), {'distance_over_N': d, 'compartment': 'SIR'[i], 'graph': case['graph'], 'tau': tau, 'gamma': gamma, 'rho': rho,
                                                                     'ref_tail': curves[ref][i][-3:].tolist(), 'other_tail': curves[other][i][-3:].tolist()})
    bump(res, {'A': 'familyA_compared', 'B': 'familyB_compared', 'Bd': 'familyB_discrete_compared', 'C_SIR': 'familyC_SIR_compared', 'C_SIS': 'familyC_SIS_compared',
               'D_SIR': 'familyD_SIR_compared', 'D_SIS': 'familyD_SIS_compared'}[fam])
    setmax(res, 'max_distance_over_N_' + fam, worst)
    I = curves[ref][1]
    if np.max(np.abs(I - I[0])) > 1e-3 * N:
        res['nontrivial'] = '%s:%s:%s:%s' % (fam, sorted(d for _, d in G.degree()), tau, gamma)
        res['sample'] = {'family': fam, 'models': labels, 'graph': case['graph'], 'tau': tau, 'gamma': gamma, 'rho': rho, 'max_distance_over_N': worst}
    return res
