"""C14 - results depend on network structure, not on node names or ordering (metamorphic monitoring).

Each entry point is run on G (integer labels, natural insertion order) and on a copy with a random bijective relabelling (str / tuple / mixed /
negative / permuted-int labels), shuffled node and edge insertion order, and - for the node-level models - a permuted nodelist.  Outputs must agree
(per-node outputs mapped through the bijection): ODE models to 1e-6 N, deterministic-rule simulators exactly."""
import random, warnings
import numpy as np
from .. import gen, odereg, simcase
from ..runner import new_result, viol, bump, setmax, case_seed
from . import c11, c13

PID = 'C14'
LEVEL = 'exploration'
GRAPH_ENTRIES = odereg.SIR_GRAPH + odereg.SIS_GRAPH + odereg.RHO_ONLY + odereg.NODE_LEVEL
SIMS = ['fast_nonMarkov_SIR', 'fast_nonMarkov_SIS', 'discrete_SIR']
RULE = ('cases: 28 graph-taking ODE entry points x {rho, explicit sets, sets + recovered} x both return modes, and 3 deterministic-rule simulators (table '
        'rules), each on a base graph and on a relabelled + insertion-order-shuffled copy (+ permuted nodelist for node-level models).  Non-trivial = the '
        'relabelling is not the identity and the dynamics are not constant; distinct = (entry point, label scheme, IC form, graph iso key).')
ASSUMPTIONS = ['tolerance 1e-6 N for ODE outputs (rounding differs with summation order)', 'simulator rules are tables keyed by structural node index']
BUDGET = {'quick': 170, 'thorough': 1500}
CHUNK = {'quick': 10, 'thorough': 40}
CASE_TIMEOUT = 300
REQUIRED = ['sim_pairs_with_lattice_rules', 'ode_pairs_compared', 'node_level_outputs_mapped', 'sim_pairs_compared', 'permuted_nodelists'] + ['entry:' + e for e in GRAPH_ENTRIES + SIMS]
SCHEMES = ['perm', 'neg', 'str', 'tuple', 'mixed', 'offset', 'nested', 'fset']


def gen_cases(tier, seed):
    per = {'quick': 80, 'thorough': 1500}[tier]
    out = []
    k = 0
    for name in GRAPH_ENTRIES:
        m = per if name not in odereg.HEAVY else max(6, per // 3)
        for j in range(m):
            k += 1
            cs = case_seed(seed, PID, k)
            r = random.Random(cs)
            c = odereg.random_ode_case(r, name)
            c['graph']['labels'] = 'int'
            c['ic'] = ['rho', 'sets', 'sets'][j % 3]
            if j % 3 == 1:
                c['R0'] = []
            c['full'] = (j // 3) % 2 == 0
            c['scheme'] = SCHEMES[(j + k) % len(SCHEMES)]
            if c['scheme'] in gen.CONTAINER_LIKE and c.get('ic_container') in ('tuple', 'frozenset'):
                c['ic_container'] = 'list'      # a tuple / frozenset of nodes can itself be a node label there: 'a single node' and 'an iterable of nodes' would both fit
            c['kind'] = 'ode'
            c['tcount'] = 7
            out.append(c)
    ns = {'quick': 1200, 'thorough': 40000}[tier]
    for j in range(ns * len(SIMS)):
        cs = case_seed(seed, PID + 'sim', j)
        r = random.Random(cs)
        desc = gen.random_graph(r, 2, 9)
        desc['labels'] = 'int'
        nn = desc['n']
        c = {'kind': 'sim', 'sim': SIMS[j % len(SIMS)], 'graph': desc, 'scheme': r.choice(SCHEMES), 'seed': cs,
             'I0': sorted(r.sample(range(nn), r.randint(1, min(nn, 2)))), 'tmin': r.choice([0, -2, 1.5]), 'profile': r.choice(['sparse', 'dense'])}
        rest = [i for i in range(nn) if i not in c['I0']]
        c['R0'] = sorted(r.sample(rest, 1)) if (rest and r.random() < 0.3 and c['sim'] != 'fast_nonMarkov_SIS') else []
        c['tmax'] = c['tmin'] + r.choice([2.0, 5.0]) if c['sim'] != 'discrete_SIR' else c['tmin'] + r.choice([2, 6])
        c['dur'] = [round(r.uniform(0.2, 2.5), 6) for _ in range(nn)]
        c['delay'] = {}
        # a share of the rules is integer-valued (generation times on a lattice): simultaneous events, transmissions landing exactly on a
        # recovery time.  Which of several simultaneous events is handled first follows queue insertion order, i.e. the iteration order of
        # the graph - the per-node histories must not depend on it
        c['lattice'] = (j // len(SIMS)) % 3 == 2
        if c['lattice']:
            c['dur'] = [r.choice([1, 2, 3]) for _ in range(nn)]
        for (u, v) in desc['edges']:
            c['delay']['%d,%d' % (u, v)] = round(r.uniform(0, 3), 6) if not c['lattice'] else r.choice([0, 1, 2, 3, 4])
            c['delay']['%d,%d' % (v, u)] = round(r.uniform(0, 3), 6) if not c['lattice'] else r.choice([0, 1, 2, 3, 4])
        out.append(c)
    return out


def transformed(case):
    r = random.Random(case['seed'] + 99)
    d = gen.shuffle_desc(r, case['graph'])
    d['labels'] = case['scheme']
    d['salt'] = case['seed'] % 1000
    c2 = dict(case)
    c2['graph'] = d
    return c2, r


def _quiet(f, *a, **kw):
    with warnings.catch_warnings(record=True) as wl:
        warnings.simplefilter('always')
        with np.errstate(all='warn'):
            out = f(*a, **kw)
    bad = any(issubclass(w.category, RuntimeWarning) or 'ODEint' in str(w.category) for w in wl)
    return out, bad


def run_ode(case, res):
    name = case['entry']
    bump(res, 'entry:' + name)
    base = dict(case)
    n = case['graph']['n']
    node_level = name in odereg.NODE_LEVEL
    if node_level:
        base['pass_nodelist'] = True            # index order
    c2, r = transformed(case)
    if node_level:
        perm = list(range(n))
        r.shuffle(perm)
        c2['nodelist_perm'] = perm
        bump(res, 'permuted_nodelists')
    A, B = odereg.build(base), odereg.build(c2)
    icc = 'rho' if A.use_rho else ('sets+R0' if A.R0 else 'sets')
    tag = '%s|%s|%s' % (name, icc, 'full' if A.full else 'plain')
    outs = []
    for which, call in (('base', A), ('relabelled', B)):
        try:
            o, bad = _quiet(call.f, *call.args, **call.kw)
        except Exception as e:
            viol(res, '%s|%s|exception:%s' % (tag, which if which == 'base' else 'labels=' + case['scheme'], simcase.exc_key(e)), {'err': repr(e)[:200], 'graph': case['graph']})
            return
        if bad:
            bump(res, 'discarded_numerical_warnings')
            return
        outs.append(list(o))
    oa, ob = outs
    N = A.N
    if A.use_rho and A.rho == 0:
        # started exactly on the disease-free state: an unstable equilibrium whenever R0 > 1, so the curves are amplified rounding noise
        # (summation order legitimately differs under relabelling) - nothing to compare beyond "both calls succeed"
        bump(res, 'disease_free_starts_not_compared')
        return
    lay = odereg.layout(name, A.full)
    if len(oa) != len(ob):
        viol(res, '%s|labels=%s|arity_differs' % (tag, case['scheme']), {})
        return
    bump(res, 'ode_pairs_compared')
    worst = 0.0
    # rows after the susceptible class is numerically exhausted are not compared (singular closures, see C06)
    Sbase = np.asarray(oa[1], dtype=float)
    if Sbase.ndim > 1:
        Sbase = Sbase.reshape(-1, Sbase.shape[-1]).sum(axis=0)
    cut = np.nonzero(~(Sbase >= 5e-3 * N))[0] if Sbase.ndim == 1 else []
    kcut = (int(cut[0]) + 1) if len(cut) else None
    if kcut is not None:
        bump(res, 'singular_tail_cases_truncated')
    for pos, key in enumerate(lay):
        if pos + 1 >= len(oa):
            break
        a, b = oa[pos + 1], ob[pos + 1]
        if key == 'thetadict1':
            a = np.array([a[k] for k in sorted(a)])
            b = np.array([b[k] for k in sorted(b)])
        a, b = np.asarray(a, dtype=float), np.asarray(b, dtype=float)
        if key in ('Xs', 'Ys', 'Zs') and node_level:
            perm = c2['nodelist_perm']
            inv = np.argsort(perm)
            b = b[inv]                          # row i of b corresponds to structural node perm[i]
            bump(res, 'node_level_outputs_mapped')
        elif key in ('XY', 'XX') and node_level:
            inv = np.argsort(c2['nodelist_perm'])
            b = b[inv][:, inv]
            bump(res, 'node_level_outputs_mapped')
        if a.shape != b.shape:
            viol(res, '%s|labels=%s|shape_differs|%s' % (tag, case['scheme'], key), {'shapes': [list(a.shape), list(b.shape)]})
            return
        if kcut is not None and a.ndim >= 1 and a.shape[-1] == len(Sbase):
            a, b = a[..., :kcut], b[..., :kcut]
        if not (np.all(np.isfinite(a)) and np.all(np.isfinite(b))):
            if np.all(np.isfinite(a)) != np.all(np.isfinite(b)):
                viol(res, '%s|labels=%s|output_changes_under_relabelling|%s' % (tag, case['scheme'], key), {'why': 'non-finite values on one side only'})
                return
            continue
        d = float(np.max(np.abs(a - b))) if a.size else 0.0
        worst = max(worst, d / max(N, 1))
        if d > 1e-6 * max(N, 1):
            viol(res, '%s|labels=%s|output_changes_under_relabelling|%s' % (tag, case['scheme'], key), {'max_difference': d, 'N': N, 'graph': case['graph'], 'tau': case['tau'], 'gamma': case['gamma'],
                                                                                                     'nodelist_perm': c2.get('nodelist_perm')})
            return
    setmax(res, 'max_ode_difference_over_N', worst)
    I = np.asarray(oa[2], dtype=float)
    if I.ndim == 1 and np.max(np.abs(I - I[0])) > 1e-6 * N:
        res['nontrivial'] = '%s:%s:%s:%s' % (name, case['scheme'], icc, gen.iso_key(case['graph']))
        res['sample'] = {'entry': name, 'scheme': case['scheme'], 'ic': icc, 'graph': case['graph'], 'max_difference_over_N': worst}


def _sim_hist(case):
    import EoN
    G, lab = gen.build_graph(case['graph'])
    n = case['graph']['n']
    idx = {lab(i): i for i in range(n)}
    I0 = [lab(i) for i in case['I0']]
    R0 = [lab(i) for i in case['R0']]
    name = case['sim']
    if name == 'fast_nonMarkov_SIR':
        dur, delay = c11.tables(case, lab)
        out = EoN.fast_nonMarkov_SIR(G, trans_time_fxn=lambda u, v: delay[(u, v)], rec_time_fxn=lambda u: dur[u], initial_infecteds=I0,
                                     initial_recovereds=(R0 or None), tmin=case['tmin'], tmax=case['tmax'], return_full_data=True)
    elif name == 'fast_nonMarkov_SIS':
        occ = {}

        def rtf(u):
            i = idx[u]
            occ[i] = occ.get(i, 0) + 1
            if case.get('lattice'):
                return 1 + int(3 * c13._u(case['seed'], 'd', i, occ[i] - 1))
            return c13.table_duration(case['seed'], i, occ[i] - 1)

        def ttf(u, v, d):
            i = idx[u]
            if case.get('lattice'):
                return [k for k in (1, 2, 3, 4) if c13._u(case['seed'], 'v', i, idx[v], occ[i] - 1, k) < 0.45]
            return c13.table_delays(case['seed'], case['profile'], i, idx[v], occ[i] - 1, d)
        out = EoN.fast_nonMarkov_SIS(G, trans_time_fxn=ttf, rec_time_fxn=rtf, initial_infecteds=I0, tmin=case['tmin'], tmax=case['tmax'], return_full_data=True)
    else:
        _, delay = c11.tables(case, lab)
        out = EoN.discrete_SIR(G, test_transmission=lambda u, v: delay[(u, v)] < 1.5, initial_infecteds=I0, initial_recovereds=(R0 or None),
                               tmin=case['tmin'], tmax=case['tmax'], return_full_data=True)
    hist = {}
    for u in G:
        ts, ss = out.node_history(u)
        hist[idx[u]] = (list(map(float, ts)), list(ss))
    trans = sorted((float(t), -1 if a is None else idx[a], idx[b]) for t, a, b in out.transmissions())
    return hist, trans


def run_sim(case, res):
    name = case['sim']
    bump(res, 'entry:' + name)
    c2, r = transformed(case)
    try:
        ha, ta = _sim_hist(case)
    except Exception as e:
        viol(res, '%s|base|exception:%s' % (name, simcase.exc_key(e)), {'err': repr(e)[:200]})
        return
    try:
        hb, tb = _sim_hist(c2)
    except Exception as e:
        viol(res, '%s|labels=%s|exception:%s' % (name, case['scheme'], simcase.exc_key(e)), {'err': repr(e)[:200]})
        return
    bump(res, 'sim_pairs_compared')
    if case.get('lattice'):
        bump(res, 'sim_pairs_with_lattice_rules')
    if ha != hb:
        bad = [i for i in ha if ha[i] != hb[i]][:1]
        viol(res, '%s|labels=%s|history_changes_under_relabelling' % (name, case['scheme']), {'node': bad, 'base': ha[bad[0]], 'relabelled': hb[bad[0]], 'graph': case['graph']})
    elif ta != tb and name != 'discrete_SIR' and not case.get('lattice'):      # with simultaneous events the recorded infector may legitimately differ
        viol(res, '%s|labels=%s|transmissions_change_under_relabelling' % (name, case['scheme']), {'base': ta[:4], 'relabelled': tb[:4]})
    if any(len(h[0]) > 1 for i, h in ha.items() if i not in case['I0']):
        res['nontrivial'] = '%s:%s:%s' % (name, case['scheme'], gen.iso_key(case['graph']))
        res['sample'] = {'sim': name, 'scheme': case['scheme'], 'graph': case['graph'], 'changes': sum(len(h[0]) - 1 for h in ha.values())}


def run_case(case):
    res = new_result()
    (run_ode if case['kind'] == 'ode' else run_sim)(case, res)
    return res
