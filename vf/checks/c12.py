"""C12 - discrete-time simulators follow generation-by-generation Reed-Frost dynamics.

kinds
  table   discrete_SIR with deterministic table rules (transmission success per arc, optional recovery-after-d-steps): BFS reference
  trials  Bernoulli trial structure via RNG proxy + tap on the contact test: threshold == p, one trial per contact, stop at first success
  enum    E3: all outcomes of the Bernoulli draws enumerated on small graphs -> exact trajectory law vs Reed-Frost / discrete SIS chain
  perc    percolate_network: one trial per edge with threshold p, edge kept iff success, same node set
"""
import random, itertools
import numpy as np
import networkx as nx
from .. import gen, simreg, simcase, rngprobe
from ..runner import new_result, viol, bump, setmax, case_seed
from ..oracles import percolation as perc, reedfrost

PID = 'C12'
LEVEL = 'exploration'
RULE = ('table/trials/perc: random & boundary graphs n<=10, p grid incl. 0 and 1, initial infected/recovered sets, tmin in {0,-3,2}, finite/infinite '
        'horizons; enum: every graph of the atlas with <=4 (quick) / <=5 (thorough) nodes x p in {0,0.3,0.5,1} x every initial set of size 1-2, '
        'all Bernoulli outcomes enumerated by driving the RNG (leaf probabilities must sum to 1).  Non-trivial = at least one contact trial / one '
        'successful arc; distinct = (kind, simulator, graph iso key, p, |I0|).')
ASSUMPTIONS = ['table rules are deterministic, so BFS in the digraph of successful contacts is the unique reference']
BUDGET = {'quick': 150, 'thorough': 1500}
CHUNK = {'quick': 30, 'thorough': 120}
REQUIRED = ['table_runs_checked', 'recovery_rule_runs_checked', 'trial_thresholds_checked', 'contact_steps_checked', 'sis_trial_counts_checked',
            'rho_runs_checked', 'enum_leaves', 'enum_laws_compared', 'enum_cases_read_off_full_data', 'perc_edges_checked', 'perc_big_graphs']
ENUM_SIMS = ['basic_discrete_SIR', 'percolation_based_discrete_SIR', 'basic_discrete_SIS', 'discrete_SIR']


def gen_cases(tier, seed):
    q = tier == 'quick'
    out = []
    n = 10000 if q else 400000
    kinds = ['table', 'table', 'trials', 'trials_sis', 'perc']
    # size-gated code paths: a few large networks (tens of thousands of nodes) next to the many small ones
    for j, N in enumerate([10500, 25000] if q else [10500, 25000, 60000, 130000]):
        cs = case_seed(seed, PID + 'big', j)
        r = random.Random(cs)
        out.append({'kind': 'perc', 'big': {'n': N + r.randrange(100), 'k': r.choice([3, 4]), 'seed': cs, 'offset': r.choice([0, 7])}, 'p': r.choice([0.3, 0.5, 0.7]), 'seed': cs})
    # initial condition through rho: the counts must describe the epidemic that is actually run
    for j in range(300 if q else 6000):
        cs = case_seed(seed, PID + 'rho', j)
        r = random.Random(cs)
        desc = gen.random_graph(r, 6, 30, kinds=['gnp', 'regular', 'config', 'complete', 'grid'])
        desc['labels'] = r.choice(gen.LABEL_SCHEMES)
        out.append({'kind': 'rho', 'sim': ['basic_discrete_SIR', 'percolation_based_discrete_SIR', 'discrete_SIR', 'basic_discrete_SIS'][j % 4], 'graph': desc,
                    'rho': r.choice([0.2, 0.3, 0.5]), 'p': r.choice([0.3, 0.7, 1.0]), 'tmin': r.choice([0, -3, 2]), 'seed': cs})
    for k in range(n):
        cs = case_seed(seed, PID, k)
        r = random.Random(cs)
        desc = gen.random_graph(r, 1, 10)
        desc['labels'] = r.choice(gen.LABEL_SCHEMES)
        nn = desc['n']
        k0 = r.randint(1, min(nn, 3))
        I0 = r.sample(range(nn), k0)
        rest = [i for i in range(nn) if i not in I0]
        R0 = r.sample(rest, r.randint(0, min(2, len(rest)))) if r.random() < 0.4 else []
        tmin = r.choice([0, -3, 2])
        succ = {}
        ps = r.choice([0.2, 0.5, 0.8, 1.0])
        for (u, v) in desc['edges']:
            succ['%d,%d' % (u, v)] = r.random() < ps
            succ['%d,%d' % (v, u)] = r.random() < ps
        if kinds[k % len(kinds)] == 'table' and r.random() < 0.3:
            desc = dict(desc)
            desc['directed'] = True       # contacts with a direction: u reaches its successors only
            I0 = r.sample(range(nn), r.randint(1, max(1, min(nn, 5))))      # often more infectious than susceptible nodes
            R0 = [i for i in R0 if i not in I0]
        out.append({'kind': kinds[k % len(kinds)], 'graph': desc, 'I0': I0, 'R0': R0, 'tmin': tmin,
                    'tmax': r.choice(['inf', 'inf', tmin + 1, tmin + 2, tmin + 4, tmin + 3]), 'succ': succ,
                    'stay': [r.choice([1, 1, 2, 3]) for _ in range(nn)] if r.random() < 0.4 else None,
                    'p': r.choice([0.0, 0.1, 0.3, 0.5, 0.9, 1.0, 0.02, 0.07]), 'full': r.random() < 0.5, 'seed': cs,
                    'sim': r.choice(['basic_discrete_SIR', 'discrete_SIR'])})
    nmax = 4 if q else 5
    k = 0
    for desc in gen.atlas(nmax):
        nn = desc['n']
        for p in (0.0, 0.3, 0.5, 1.0):
            for size in (1, 2):
                for I0 in itertools.combinations(range(nn), size):
                    for sim in ENUM_SIMS:
                        k += 1
                        rest = [i for i in range(nn) if i not in I0]
                        R0 = [rest[0]] if (rest and k % 3 == 0 and 'SIS' not in sim) else []
                        tmin = [0, -2, 1][k % 3]
                        if sim == 'basic_discrete_SIS':
                            tmax = tmin + (3 if nn <= 3 else 2)
                        else:
                            tmax = 'inf' if k % 2 else tmin + 2
                        out.append({'kind': 'enum', 'sim': sim, 'graph': dict(desc), 'p': p, 'I0': list(I0), 'R0': R0, 'tmin': tmin, 'tmax': tmax, 'full': (k % 3 == 2),
                                    'seed': case_seed(seed, PID + 'enum', k)})
    return out


def _tmax(c):
    return float('inf') if c['tmax'] == 'inf' else c['tmax']


def run_table(case, res):
    import EoN
    G, lab = gen.build_graph(case['graph'])
    nodes = list(G)
    nn = len(nodes)
    I0 = [lab(i) for i in case['I0']]
    R0 = [lab(i) for i in case['R0']]
    tmin, tmax = case['tmin'], _tmax(case)
    succ = {}
    for kk, b in case['succ'].items():
        u, v = kk.split(',')
        succ[(lab(int(u)), lab(int(v)))] = b
    arcs = {a: 1 for a, b in succ.items() if b and G.has_edge(*a) and a[0] not in R0 and a[1] not in R0}
    level = perc.bfs_levels([u for u in nodes if u not in R0], arcs, I0)
    if G.is_directed():
        bump(res, 'table_runs_on_directed_networks')
    # the rule's answer is a truth value: a builtin bool, a numpy.bool_ (what a numpy comparison returns) or 1 / 0
    ans = ['bool', 'numpy', 'int', 'bool'][case['seed'] % 4]
    if ans != 'bool':
        succ = {a: (np.bool_(b) if ans == 'numpy' else int(b)) for a, b in succ.items()}
        bump(res, 'table_rules_answering_with_' + ans)
    stay = None
    if case['stay']:
        stay = {lab(i): d for i, d in enumerate(case['stay'])}
        calls = {}

        def test_recovery(u):
            calls[u] = calls.get(u, 0) + 1
            return calls[u] >= stay[u]
    # with longer infectious periods a node keeps contacting its neighbours, but arc success is constant, so BFS levels need the
    # generalisation T_v = min_u (T_u + 1) over successful arcs - identical to BFS because success does not depend on the step.
    mode = 'full' if case['full'] else 'arrays'
    kw = dict(test_transmission=lambda u, v, tag: succ[(u, v)], args=('x',), initial_infecteds=list(I0), tmin=tmin, tmax=tmax, return_full_data=case['full'])
    if R0:
        kw['initial_recovereds'] = list(R0)
        if len(R0) == 1 and case['seed'] % 2:
            kw['initial_recovereds'] = R0[0]        # documented 'as for initial_infecteds': a single node (whatever its label type)
            bump(res, 'single_node_initial_recovereds')
    if len(I0) == 1 and case['seed'] % 5 < 2:
        kw['initial_infecteds'] = I0[0]
    if stay:
        kw['test_recovery'] = test_recovery
    try:
        out = EoN.discrete_SIR(G, **kw)
    except Exception as e:
        viol(res, 'discrete_SIR|%s|table|exception:%s' % (mode, simcase.exc_key(e)), {'err': repr(e)})
        return
    bump(res, 'table_runs_checked')
    if stay:
        bump(res, 'recovery_rule_runs_checked')
    d = {u: (stay[u] if stay else 1) for u in nodes}
    inf_t = {u: tmin + level[u] for u in level}
    # number of steps the real loop performs: while infecteds and t<tmax
    last_active = max(inf_t[u] + d[u] for u in inf_t)          # first time with no infected
    if case['full']:
        for u in nodes:
            ts, ss = map(list, out.node_history(u))
            if u in R0:
                exp = ([tmin], ['R'])
            elif u in inf_t and inf_t[u] <= tmax:
                et, es = ([tmin], ['S']) if inf_t[u] > tmin else ([], [])
                et, es = et + [inf_t[u]], es + ['I']
                if inf_t[u] + d[u] <= tmax:
                    et, es = et + [inf_t[u] + d[u]], es + ['R']
                exp = (et, es)
            else:
                exp = ([tmin], ['S'])
            if (ts, ss) != exp:
                viol(res, 'discrete_SIR|full|%s|infection_step_is_bfs_distance' % ('recovery_rule' if stay else 'one_step'),
                     {'node': repr(u), 'reported': [ts, ss], 'reference': [exp[0], exp[1]], 'tmax': tmax})
                return
    else:
        t, S, I, R = [np.asarray(a).tolist() for a in out]
        exp_rows = []
        tt = tmin
        while True:
            ni = sum(1 for u in inf_t if inf_t[u] <= tt < inf_t[u] + d[u])
            nr = sum(1 for u in inf_t if inf_t[u] + d[u] <= tt) + len(R0)
            ns = nn - ni - nr
            exp_rows.append((tt, ns, ni, nr))
            if ni == 0 or not (tt < tmax):
                break
            tt += 1
        got = list(zip(t, S, I, R))
        if got != exp_rows:
            viol(res, 'discrete_SIR|arrays|%s|rows_equal_bfs_generations' % ('recovery_rule' if stay else 'one_step'),
                 {'reported': got[:6], 'reference': exp_rows[:6], 'tmax': tmax, 'R0': len(R0)})
            return
    if len(level) > len(I0):
        res['nontrivial'] = 'table:%s:%s:%s:%d' % (mode, gen.iso_key(case['graph']), bool(stay), len(I0))
        res['sample'] = {'kind': 'table', 'graph': case['graph'], 'I0': case['I0'], 'R0': case['R0'], 'generations': max(level.values()), 'stay': case['stay']}


def run_trials(case, res):
    """basic_discrete_SIR / discrete_SIR default rule: tap on the contact test + RNG proxy."""
    import EoN
    import EoN.simulation as sim
    G, lab = gen.build_graph(case['graph'])
    nodes = list(G)
    I0 = [lab(i) for i in case['I0']]
    R0 = [lab(i) for i in case['R0']]
    p = case['p']
    tmin, tmax = case['tmin'], _tmax(case)
    rec = []
    orig = sim._simple_test_transmission_

    def tap(u, v, pp):
        r = orig(u, v, pp)
        rec.append((u, v, pp, bool(r)))
        return r
    name = case['sim']
    try:
        with rngprobe.monitor(seed=case['seed']) as px:
            sim._simple_test_transmission_ = tap
            try:
                if name == 'basic_discrete_SIR':
                    out = EoN.basic_discrete_SIR(G, p, initial_infecteds=list(I0), initial_recovereds=list(R0) or None, tmin=tmin, tmax=tmax)
                else:
                    out = EoN.discrete_SIR(G, test_transmission=tap, args=(p,), initial_infecteds=list(I0), initial_recovereds=list(R0) or None, tmin=tmin, tmax=tmax)
            finally:
                sim._simple_test_transmission_ = orig
    except Exception as e:
        viol(res, '%s|arrays|trials|exception:%s' % (name, simcase.exc_key(e)), {'err': repr(e)})
        return
    cmps = [e for e in px.log if e[0] == 'cmp']
    if len(cmps) != len(rec):
        res['inconclusive'] = 'contact test of %s not observable through _simple_test_transmission_ (%d comparisons, %d tapped calls)' % (name, len(cmps), len(rec))
        return
    for e, (u, v, pp, r) in zip(cmps, rec):
        bump(res, 'trial_thresholds_checked')
        if e[2] != p or pp != p or e[3] != r:
            viol(res, '%s|contact_probability_is_p' % name, {'threshold_used': e[2], 'p': p})
            return
    # replay the trial structure step by step
    status = {u: 'S' for u in nodes}
    for u in I0:
        status[u] = 'I'
    for u in R0:
        status[u] = 'R'
    infecteds = set(I0)
    i = 0
    t = tmin
    rows = [(t, sum(1 for u in nodes if status[u] == 'S'), len(infecteds), len(R0))]
    nR = len(R0)
    while infecteds and t < tmax:
        tested = set()
        newinf = set()
        while i < len(rec) and rec[i][0] in infecteds and (rec[i][0], rec[i][1]) not in tested:
            u, v, pp, r = rec[i]
            if status[v] != 'S' or not G.has_edge(u, v):
                viol(res, '%s|trial_only_on_susceptible_contact' % name, {'pair': [repr(u), repr(v)], 'target_status': status[v]})
                return
            tested.add((u, v))
            if r:
                newinf.add(v)        # further trials on a target already infected in this step are harmless (they cannot change the outcome)
            i += 1
        bump(res, 'contact_steps_checked')
        # completeness: every infectious-susceptible contact whose target escaped was tried (k failures); infected targets: trials stop at first success
        for u in infecteds:
            for v in G.neighbors(u):
                if status[v] == 'S' and v not in newinf and (u, v) not in tested:
                    viol(res, '%s|every_contact_tried_until_success' % name, {'pair': [repr(u), repr(v)], 'step': t})
                    return
        for v in newinf:
            status[v] = 'I'
        for u in infecteds:
            status[u] = 'R'
        nR += len(infecteds)
        infecteds = newinf
        t += 1
        rows.append((t, sum(1 for u in nodes if status[u] == 'S'), len(infecteds), nR))
    if i != len(rec):
        viol(res, '%s|trials_after_end' % name, {'unattributed_trials': len(rec) - i})
        return
    got = list(zip(*[np.asarray(a).tolist() for a in out]))
    if got != rows:
        viol(res, '%s|rows_follow_trial_outcomes' % name, {'reported': got[:6], 'from_trials': rows[:6]})
        return
    if rec:
        res['nontrivial'] = 'trials:%s:%s:%s:%d' % (name, gen.iso_key(case['graph']), p, len(I0))
        res['sample'] = {'kind': 'trials', 'sim': name, 'graph': case['graph'], 'p': p, 'trials': len(rec), 'steps': len(rows) - 1}


def run_trials_sis(case, res):
    import EoN
    G, lab = gen.build_graph(case['graph'])
    nodes = list(G)
    I0 = [lab(i) for i in case['I0']]
    p = case['p']
    tmin = case['tmin']
    tmax = tmin + 4 if case['tmax'] == 'inf' else case['tmax']
    try:
        with rngprobe.monitor(seed=case['seed']) as px:
            out = EoN.basic_discrete_SIS(G, p, initial_infecteds=list(I0), tmin=tmin, tmax=tmax, return_full_data=True)
    except Exception as e:
        viol(res, 'basic_discrete_SIS|full|trials|exception:%s' % simcase.exc_key(e), {'err': repr(e)})
        return
    cmps = [e for e in px.log if e[0] == 'cmp']
    for e in cmps:
        bump(res, 'trial_thresholds_checked')
        if e[2] != p:
            viol(res, 'basic_discrete_SIS|contact_probability_is_p', {'threshold_used': e[2], 'p': p})
            return
    # expected number of trials: one per (infectious, non-infectious) ordered contact per step
    exp = 0
    t = tmin
    steps = 0
    while t < tmax:
        st = out.get_statuses(time=t)
        inf = [u for u in nodes if st[u] == 'I']
        if not inf:
            break
        exp += sum(1 for u in inf for v in G.neighbors(u) if st[v] != 'I')
        t += 1
        steps += 1
    bump(res, 'sis_trial_counts_checked')
    if len(cmps) != exp:
        viol(res, 'basic_discrete_SIS|one_trial_per_contact', {'trials': len(cmps), 'contacts': exp, 'steps': steps})
        return
    # successes must equal infections
    succ = sum(1 for e in cmps if e[3])
    if exp:
        res['nontrivial'] = 'trials_sis:%s:%s:%d' % (gen.iso_key(case['graph']), p, len(I0))
        res['sample'] = {'kind': 'trials_sis', 'graph': case['graph'], 'p': p, 'trials': len(cmps), 'successes': succ}


def run_rho(case, res):
    """rho given: S+I(+R) stays N at every step and (SIR, one-step infectious period) everybody infectious at step t is recovered at t+1"""
    import EoN
    G, lab = gen.build_graph(case['graph'])
    N = G.order()
    name = case['sim']
    simcase.seed_all(case['seed'])
    try:
        if name == 'discrete_SIR':
            out = EoN.discrete_SIR(G, args=(case['p'],), rho=case['rho'], tmin=case['tmin'])
        elif name == 'basic_discrete_SIS':
            out = EoN.basic_discrete_SIS(G, case['p'], rho=case['rho'], tmin=case['tmin'], tmax=case['tmin'] + 6)
        else:
            out = getattr(EoN, name)(G, case['p'], rho=case['rho'], tmin=case['tmin'])
    except Exception as e:
        viol(res, '%s|rho|exception:%s' % (name, simcase.exc_key(e)), {'err': repr(e)})
        return
    cols = [np.asarray(a).tolist() for a in out[1:]]
    bump(res, 'rho_runs_checked')
    tot = [sum(c[i] for c in cols) for i in range(len(cols[0]))]
    if any(x != N for x in tot):
        viol(res, '%s|rho|counts_sum_to_N' % name, {'totals': tot[:6], 'N': N, 'rho': case['rho']})
        return
    if name != 'basic_discrete_SIS':
        S, I, R = cols
        if any(R[i + 1] - R[i] != I[i] for i in range(len(R) - 1)):
            viol(res, '%s|rho|infectious_for_exactly_one_step' % name, {'I': I[:5], 'R': R[:5], 'rho': case['rho']})
            return
    if len(cols[0]) > 1:
        res['nontrivial'] = 'rho:%s:%s:%s' % (name, gen.iso_key(case['graph']), case['rho'])
        res['sample'] = {'kind': 'rho', 'sim': name, 'graph': case['graph'], 'rho': case['rho'], 'rows': len(cols[0])}


def run_enum(case, res):
    import EoN
    G, lab = gen.build_graph(case['graph'])
    n = case['graph']['n']
    I0 = [lab(i) for i in case['I0']]
    R0 = [lab(i) for i in case['R0']]
    p, tmin, tmax = case['p'], case['tmin'], _tmax(case)
    name = case['sim']

    full = bool(case.get('full'))
    fkw = {'return_full_data': True} if full else {}
    if full:
        bump(res, 'enum_cases_read_off_full_data')
    nodes = list(G)

    def rows_from_full(sim):
        # the step-by-step rows the plain arrays would hold, read off the per-node histories: one row per step from tmin until the
        # horizon or the step at which nobody is infected any more
        t_end = tmax if tmax != float('inf') else int(sim.t()[-1])
        rows = []
        tt = tmin
        while tt <= t_end:
            st = sim.get_statuses(nodes, tt)
            cnt = [sum(1 for u in nodes if st[u] == x) for x in (('S', 'I') if name == 'basic_discrete_SIS' else ('S', 'I', 'R'))]
            rows.append(tuple([tt] + cnt))
            if cnt[1] == 0:
                break
            tt += 1
        return tuple(rows)

    def run(d):
        with rngprobe.monitor(driver=d):
            if name == 'basic_discrete_SIS':
                out = EoN.basic_discrete_SIS(G, p, initial_infecteds=list(I0), tmin=tmin, tmax=tmax, **fkw)
            elif name == 'discrete_SIR':
                out = EoN.discrete_SIR(G, args=(p,), initial_infecteds=list(I0), initial_recovereds=list(R0) or None, tmin=tmin, tmax=tmax, **fkw)
            else:
                out = getattr(EoN, name)(G, p, initial_infecteds=list(I0), initial_recovereds=list(R0) or None, tmin=tmin, tmax=tmax, **fkw)
        if full:
            return rows_from_full(out)
        return tuple(zip(*[np.asarray(a).tolist() for a in out]))
    emp = {}
    tot = 0.0
    leaves = 0
    try:
        for script, d, out in rngprobe.explore(run, None, max_runs=60000):
            pr = d.prob()
            emp[out] = emp.get(out, 0.0) + pr
            tot += pr
            leaves += 1
    except rngprobe.DepthExceeded as e:
        res['inconclusive'] = 'enumeration bound hit for %s: %r' % (name, e)
        return
    except Exception as e:
        viol(res, '%s|enum|exception:%s' % (name, simcase.exc_key(e)), {'err': repr(e)})
        return
    bump(res, 'enum_leaves', leaves)
    if abs(tot - 1) > 1e-9:
        raise RuntimeError('explorer leaf probabilities sum to %r' % tot)
    edges = [tuple(e) for e in case['graph']['edges']]
    if name == 'basic_discrete_SIS':
        law = reedfrost.sis_trajectory_law(n, edges, p, case['I0'], tmin, tmax)
    else:
        law = reedfrost.sir_trajectory_law(n, edges, p, case['I0'], case['R0'], tmin, tmax)
    bump(res, 'enum_laws_compared')
    keys = set(emp) | set(law)
    worst = max(abs(emp.get(k, 0.0) - law.get(k, 0.0)) for k in keys)
    setmax(res, 'enum_max_abs_probability_error', worst)
    if worst > 1e-12:
        k = max(keys, key=lambda kk: abs(emp.get(kk, 0.0) - law.get(kk, 0.0)))
        viol(res, '%s|trajectory_law_equals_chain' % name, {'trajectory': [list(r) for r in k], 'simulator_probability': emp.get(k, 0.0), 'chain_probability': law.get(k, 0.0),
                                                           'p': p, 'graph': case['graph'], 'I0': case['I0'], 'R0': case['R0'], 'tmax': case['tmax']})
    if len(law) > 1:
        res['nontrivial'] = 'enum:%s:%s:%s:%d' % (name, gen.iso_key(case['graph']), p, len(I0))
        res['sample'] = {'kind': 'enum', 'sim': name, 'graph': case['graph'], 'p': p, 'I0': case['I0'], 'leaves': leaves, 'distinct_trajectories': len(law)}


def _big_graph(big):
    # ring plus random chords: n nodes, about k*n edges, built from a seed (kept out of the case description: tens of thousands of edges)
    import networkx as nx
    rr = random.Random(big['seed'])
    n = big['n']
    G = nx.Graph()
    off = big.get('offset', 0)
    G.add_nodes_from(range(off, off + n))
    for i in range(n):
        G.add_edge(off + i, off + (i + 1) % n)
        for _ in range(big['k'] - 1):
            j = rr.randrange(n)
            if j != i:
                G.add_edge(off + i, off + j)
    return G


def edge_retention_blackbox(G, p, runs, seed, f=None):
    """repeated seeded calls of percolate_network on a small graph: every edge of G is kept with probability p, nothing else is kept.
    Returns None if fine, else a detail dict."""
    import EoN
    from .. import stats
    f = f or EoN.percolate_network
    edges = list(G.edges())
    kept = {frozenset(e): 0 for e in edges}
    rr = random.Random(seed)
    for k in range(runs):
        simcase.seed_all(rr.randrange(2 ** 40))
        H = f(G, p)
        for e in H.edges():
            fe = frozenset(e)
            if fe not in kept:
                return {'why': 'kept edge is not an edge of G', 'edge': [repr(x) for x in e]}
            kept[fe] += 1
    for e in edges:
        kk = kept[frozenset(e)]
        zt = stats.ztest(kk - p * runs, p * (1 - p) * runs)
        if (p in (0, 0.0) and kk) or (p in (1, 1.0) and kk != runs) or zt['p'] < stats.ALPHA_RUN / max(1, len(edges)):
            return {'why': 'retention frequency', 'edge': [repr(x) for x in e], 'position_in_G_edges': edges.index(e), 'kept': kk, 'runs': runs, 'p': p}
    return None


def run_perc(case, res):
    import EoN
    from .. import stats
    if case.get('big'):
        G = _big_graph(case['big'])
        bump(res, 'perc_big_graphs')
    else:
        G, lab = gen.build_graph(case['graph'])
    p = case['p']
    try:
        with rngprobe.monitor(seed=case['seed']) as px:
            H = EoN.percolate_network(G, p)
    except Exception as e:
        viol(res, 'percolate_network|exception:%s' % simcase.exc_key(e), {'err': repr(e)})
        return
    cmps = [e for e in px.log if e[0] == 'cmp']
    edges = list(G.edges())
    bump(res, 'perc_edges_checked', len(edges) + 1)
    if set(H.nodes()) != set(G.nodes()) or H.is_directed():
        viol(res, 'percolate_network|same_node_set', {'H': H.number_of_nodes(), 'G': G.number_of_nodes()})
        return
    if not cmps and edges:
        # the trials did not go through the monitored generator (e.g. drawn in a block from numpy): judge the outcome itself.
        # kept edges must be edges of G; on a large graph every block of the edge list is retained at rate p (Bernstein-bounded test)
        if any(not G.has_edge(*e) for e in H.edges()):
            viol(res, 'percolate_network|kept_edge_not_in_G', {})
            return
        if len(edges) < 2000:
            # small graph: repeat the call and test the retention frequency of every single edge
            bad = edge_retention_blackbox(G, p, 4000, case['seed'])
            bump(res, 'perc_blackbox_repeated_runs', 4000)
            if bad:
                viol(res, 'percolate_network|each_edge_kept_with_probability_p', bad)
            return
        nb = 8
        blk = max(1, len(edges) // nb)
        worst = 1.0
        for b in range(nb):
            part = edges[b * blk:(b + 1) * blk] if b < nb - 1 else edges[b * blk:]
            kept_b = sum(1 for e in part if H.has_edge(*e))
            zt = stats.ztest(kept_b - p * len(part), p * (1 - p) * len(part))
            worst = min(worst, zt['p'])
            if (p in (0, 0.0) and kept_b) or (p in (1, 1.0) and kept_b != len(part)) or zt['p'] < stats.ALPHA_RUN / nb:
                viol(res, 'percolate_network|each_edge_kept_with_probability_p', {'block': b, 'edges_in_block': len(part), 'kept': kept_b, 'p': p, 'N': G.number_of_nodes()})
                return
        bump(res, 'perc_blackbox_blocks_checked', nb)
        return
    if len(cmps) != len(edges) or any(e[2] != p for e in cmps):
        viol(res, 'percolate_network|one_trial_per_edge_with_probability_p', {'trials': len(cmps), 'edges': len(edges), 'thresholds': [e[2] for e in cmps[:4]], 'p': p})
        return
    kept = {frozenset(e) for e, c in zip(edges, cmps) if c[3]}
    if {frozenset(e) for e in H.edges()} != kept:
        viol(res, 'percolate_network|edge_kept_iff_success', {'kept': len(H.edges()), 'successes': len(kept)})
        return
    if edges and case.get('big'):
        res['nontrivial'] = 'perc:big:%s:%s' % (case['big']['n'], p)
        res['sample'] = {'kind': 'perc', 'big_graph': case['big'], 'edges': len(edges), 'p': p, 'kept': len(kept)}
    elif edges:
        res['nontrivial'] = 'perc:%s:%s' % (gen.iso_key(case['graph']), p)
        res['sample'] = {'kind': 'perc', 'graph': case['graph'], 'p': p, 'kept': len(kept)}


def run_case(case):
    res = new_result()
    {'table': run_table, 'trials': run_trials, 'trials_sis': run_trials_sis, 'enum': run_enum, 'perc': run_perc, 'rho': run_rho}[case['kind']](case, res)
    return res
