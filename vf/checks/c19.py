"""C19 - calls do not modify their arguments and can be repeated.

Every simulator and ODE entry point is called from a registry of call templates; a deep snapshot of every argument object (graph nodes / edges /
attributes in order, containers, model-specification graphs, ndarray bytes + shape + dtype) is taken before and compared after the call; the very same
objects are then passed a second time (must succeed; deterministic ODE models must return identical arrays)."""
import random, warnings, collections
import numpy as np
import networkx as nx
from .. import gen, simreg, odereg, simcase
from ..runner import new_result, viol, bump, case_seed

PID = 'C19'
LEVEL = 'exploration'
MISC = ['percolate_network', 'directed_percolate_network', 'get_infected_nodes', 'estimate_SIR_prob_size', 'estimate_directed_SIR_prob_size',
        'estimate_SIR_prob_size_from_dir_perc', 'subsample', 'get_time_shift', 'get_Pk', 'get_Pnk', 'estimate_R0',
        'Epi_Prob_discrete', 'Attack_rate_discrete', 'Attack_rate_cts_time', 'get_PGF', 'get_PGFPrime', 'get_PGFDPrime']
RULE = ('cases: registry of call templates: 12 simulators (both modes, all container forms for the initial sets, weights, spec graphs, defaultdict ICs), '
        '48 ODE entry points + 4 final-size functions (array arguments included), 11 percolation / helper functions; each template instantiated on seeded '
        'random inputs.  Non-trivial = the call has at least one mutable argument besides the graph; distinct = (entry point, mode, graph iso key).')
ASSUMPTIONS = ['mappings with a default factory are compared semantically ({n: IC[n] for n in G}), because reading a defaultdict legitimately materialises keys']
BUDGET = {'quick': 170, 'thorough': 1500}
CHUNK = {'quick': 12, 'thorough': 60}
CASE_TIMEOUT = 240
REQUIRED = ['calls_snapshotted', 'second_calls', 'deterministic_repeats_compared', 'array_arguments_snapshotted', 'graph_arguments_snapshotted'] + \
           ['entry:' + e for e in simreg.ALL_SIMS + odereg.ALL + MISC]


def gen_cases(tier, seed):
    per = {'quick': 60, 'thorough': 1200}[tier]
    out = []
    k = 0
    for sim in simreg.ALL_SIMS:
        for j in range(per * 2):
            k += 1
            cs = case_seed(seed, PID, k)
            r = random.Random(cs)
            c = simreg.random_sim_case(r, sim)
            c['kind'] = 'sim'
            c['full'] = j % 2 == 0
            c['ic_defaultdict'] = (j % 4 == 3)
            g = c['graph']
            if not g.get('directed') and not g.get('big') and g['n'] >= 2 and r.random() < 0.2:
                # self-loops (nx.Graph(nx.configuration_model(...)) keeps them): the caller's graph keeps them too
                g = dict(g)
                loops = [[i, i] for i in r.sample(range(g['n']), r.randint(1, 2))]
                g['edges'] = [list(e) for e in g['edges']] + loops
                if g.get('ew'):
                    g['ew'] = {a: list(ws) + [1.0] * len(loops) for a, ws in g['ew'].items()}
                c['graph'] = g
                c.pop('prehistory', None)
                c['selfloops'] = True
            out.append(c)
    for name in odereg.ALL:
        m = per if name not in odereg.HEAVY else max(4, per // 3)
        for j in range(m):
            k += 1
            cs = case_seed(seed, PID, k)
            r = random.Random(cs)
            c = odereg.random_ode_case(r, name)
            c['kind'] = 'ode'
            c['ic'] = ['rho', 'sets', 'sets'][j % 3]
            c['full'] = (j // 3) % 2 == 0
            c['tcount'] = 5
            c['r0only'] = (j % 6 == 5)        # initially recovered nodes given, the index case left to the default
            if c['r0only'] and not c.get('R0'):
                rest = [i for i in range(c['graph']['n']) if i not in c['I0']]
                if len(rest) > 1:
                    c['R0'] = sorted(r.sample(rest, min(2, len(rest) - 1)))
            if j % 4 == 1 and 'homogeneous' not in name:
                # isolated nodes: degree class 0 is where guards such as `x[x==0] = 1` write into arrays (the caller's, if not copied)
                g = dict(c['graph'])
                g['n'] = g['n'] + 1 + (j % 2)
                for kk in ('nw',):
                    if g.get(kk):
                        g[kk] = {a: ws + [1.0] * (g['n'] - len(ws)) for a, ws in g[kk].items()}
                c['graph'] = g
            out.append(c)
    for name in MISC:
        for j in range(per):
            k += 1
            cs = case_seed(seed, PID, k)
            r = random.Random(cs)
            d = gen.random_graph(r, 2, 12)
            d['labels'] = r.choice(gen.LABEL_SCHEMES)
            c = {'kind': 'misc', 'entry': name, 'graph': d, 'seed': cs, 'p': r.choice([0.3, 0.7, 0.0, 1.0]), 'tau': r.choice([0.5, 1.5, 0.0]), 'gamma': r.choice([0.5, 1.0, 0.0])}
            if c['tau'] == 0 and c['gamma'] == 0:
                c['gamma'] = 1.0          # tau = gamma = 0 leaves the transmission probability undefined
            out.append(c)
    return out


def freeze(o, G=None, depth=0):
    if depth > 6:
        return ('deep', type(o).__name__)
    if isinstance(o, nx.Graph):
        return ('graph', o.is_directed(), tuple((repr(u), tuple(sorted((repr(k), freeze(v, None, depth + 1)) for k, v in d.items()))) for u, d in o.nodes(data=True)),
                tuple((repr(u), repr(v), tuple(sorted((repr(k), freeze(x, None, depth + 1)) for k, x in d.items()))) for u, v, d in o.edges(data=True)),
                tuple(sorted((repr(k), repr(v)) for k, v in o.graph.items())))
    if isinstance(o, np.ndarray):
        return ('ndarray', o.shape, str(o.dtype), o.tobytes())
    if isinstance(o, collections.defaultdict):
        if G is not None:
            return ('defaultdict-semantic', tuple((repr(n), repr(o[n])) for n in G) if False else tuple((repr(n), repr(o.get(n, o.default_factory() if o.default_factory else None))) for n in G))
        return ('defaultdict', tuple(sorted((repr(k), freeze(v, None, depth + 1)) for k, v in o.items())))
    if isinstance(o, dict):
        return ('dict', tuple((repr(k), freeze(v, None, depth + 1)) for k, v in o.items()))
    if isinstance(o, (list, tuple)):
        return (type(o).__name__, tuple(freeze(v, G, depth + 1) for v in o))
    if isinstance(o, (set, frozenset)):
        return (type(o).__name__, tuple(sorted(repr(v) for v in o)))
    if isinstance(o, range):
        return ('range', o.start, o.stop, o.step)
    if type(o).__name__ in ('dict_keys',):
        return ('dict_keys', tuple(repr(v) for v in o))
    if callable(o):
        return ('callable', id(o))
    return ('value', repr(o))


def snapshot(args, kw, G, res):
    out = {}
    for i, a in enumerate(args):
        out['arg%d' % i] = freeze(a, G)
    for k, a in kw.items():
        out[k] = freeze(a, G)
    for a in list(args) + list(kw.values()):
        if isinstance(a, np.ndarray):
            bump(res, 'array_arguments_snapshotted')
        elif isinstance(a, nx.Graph):
            bump(res, 'graph_arguments_snapshotted')
    return out


def diff(before, after):
    return [k for k in before if before[k] != after[k]]


def _same(a, b):
    if isinstance(a, dict) and isinstance(b, dict):
        return a.keys() == b.keys() and all(_same(a[k], b[k]) for k in a)
    a, b = np.asarray(a, dtype=float), np.asarray(b, dtype=float)
    return a.shape == b.shape and np.array_equal(a, b, equal_nan=True)


def run_case(case):
    import EoN
    res = new_result()
    kind = case['kind']
    deterministic = False
    if kind == 'sim':
        call = simreg.build_call(case)
        name, f, args, kw, G = call.sim, call.f, call.args, call.kw, call.G
        if case.get('ic_defaultdict') and name in ('Gillespie_simple_contagion', 'Gillespie_complex_contagion'):
            IC = args[3] if name == 'Gillespie_simple_contagion' else args[4]
            common = collections.Counter(IC.values()).most_common(1)[0][0]
            dd = collections.defaultdict(lambda: common)
            for n_, s_ in IC.items():
                if s_ != common:
                    dd[n_] = s_
            if name == 'Gillespie_simple_contagion':
                args[3] = dd
            else:
                args[4] = dd
        overlap = False
        if call.model == 'SIR' and case['seed'] % 5 == 0 and isinstance(kw.get('initial_infecteds'), list) and len(kw['initial_infecteds']) >= 2:
            # an inconsistent request (a node listed both as infected and as recovered; the docstrings say there is no consistency test):
            # whatever the library makes of it, the caller's containers stay as they are
            ir = kw.get('initial_recovereds')
            ir = list(ir) if isinstance(ir, (list, tuple, set, frozenset)) else []
            kw['initial_recovereds'] = ir + [kw['initial_infecteds'][-1]]
            overlap = True
            bump(res, 'overlapping_initial_sets_runs')
        if case.get('selfloops'):
            bump(res, 'graphs_with_self_loops')
        mode = 'full' if call.full else 'arrays'
    elif kind == 'ode':
        call = odereg.build(case)
        name, f, args, kw, G = call.name, call.f, call.args, call.kw, call.G
        deterministic = True
        mode = 'full' if call.full else 'plain'
        if case.get('seed', 0) % 4 == 1:
            # initial conditions of a large network underflow into subnormal numbers (binomial tails): such entries are values like any other
            planted = 0
            for arr in list(args) + list(kw.values()):
                if isinstance(arr, np.ndarray) and arr.dtype == np.float64 and arr.size:
                    idx = np.flatnonzero(np.asarray(arr).ravel() == 0)[:3]
                    if len(idx):
                        arr.flat[idx] = 5e-318
                        planted += len(idx)
            if planted:
                bump(res, 'array_arguments_with_subnormal_entries')
        r0only = bool(case.get('r0only') and kw.get('initial_recovereds') is not None and len(kw['initial_recovereds']) and 'initial_infecteds' in kw)
        if r0only:
            del kw['initial_infecteds']
            bump(res, 'ode_calls_with_only_initial_recovereds')
    else:
        name = case['entry']
        G, lab = gen.build_graph(case['graph'])
        mode = 'misc'
        f = getattr(EoN, name)
        kw = {}
        nodes = list(G)
        if name in ('percolate_network', 'estimate_SIR_prob_size'):
            args = [G, case['p']]
        elif name in ('directed_percolate_network', 'estimate_directed_SIR_prob_size'):
            args = [G, case['tau'], case['gamma']]
        elif name == 'get_infected_nodes':
            args = [G, case['tau'], case['gamma']]
            kw = {'initial_infecteds': [nodes[0]], 'initial_recovereds': ([nodes[-1]] if len(nodes) > 2 else None)}
        elif name == 'estimate_SIR_prob_size_from_dir_perc':
            H = nx.DiGraph()
            H.add_nodes_from(G)
            H.add_edges_from(G.edges())
            args = [H]
            G = H
            deterministic = False
        elif name == 'subsample':
            args = [np.array([0.0, 0.5, 2.0]), np.array([0.0, 0.3, 1.0, 1.7]), np.array([5, 4, 3, 2]), [1, 2, 3, 4]]
        elif name == 'get_time_shift':
            args = [np.array([0.0, 1.0, 2.0]), [1, 5, 9], 4]
        elif name in ('get_Pk', 'get_Pnk'):
            args = [G]
        elif name in ('Epi_Prob_discrete', 'Attack_rate_discrete', 'Attack_rate_cts_time', 'get_PGF', 'get_PGFPrime', 'get_PGFDPrime'):
            # the caller's degree distribution: from get_Pk, or a hand-made / truncated one that does not sum to 1 exactly, or raw counts
            Pk = dict(EoN.get_Pk(G))
            form = case['seed'] % 3
            if form == 1:
                Pk = {k: 0.97 * v for k, v in Pk.items()}
            elif form == 2:
                Pk = {k: float(round(v * G.order())) for k, v in Pk.items()}
            bump(res, 'degree_distribution_form_%d' % form)
            pp, tt, gg = (case['p'] or 0.5), (case['tau'] or 0.7), (case['gamma'] or 1.0)
            if G.number_of_edges() == 0 or 0 in Pk:
                bump(res, 'entry:' + name)          # isolated nodes / no edges: outside the domain of the fixed-point relations (0**-1)
                return res
            deterministic = True                # fixed-point relations: the same arguments give the same number, whatever was computed before
            if case['seed'] % 2:
                # just above the epidemic threshold <k>/<k^2-k>, where the fixed-point iteration is slow
                k1 = sum(k * v for k, v in Pk.items())
                k2 = sum(k * (k - 1) * v for k, v in Pk.items())
                if k2 > 0 and 0 < 1.04 * k1 / k2 < 1:
                    pp = 1.04 * k1 / k2
                    bump(res, 'final_size_calls_just_above_threshold')
            if name == 'Epi_Prob_discrete':
                args = [Pk, pp]
            elif name == 'Attack_rate_discrete':
                args = [Pk, pp]
                kw = {'rho': 0.05} if case['seed'] % 4 < 2 else {}
            elif name == 'Attack_rate_cts_time':
                args = [Pk, tt, gg]
                kw = {'rho': 0.05}
            else:
                args = [Pk]
                deterministic = False           # returns a function
        elif name == 'estimate_R0':
            args = [G]
            kw = {'tau': case['tau'], 'gamma': case['gamma']}
            if G.number_of_edges() == 0:
                bump(res, 'entry:' + name)
                return res
    bump(res, 'entry:' + name)
    tag = '%s|%s' % (name, mode)
    before = snapshot(args, kw, G, res)
    simcase.seed_all(case['seed'])
    try:
        with warnings.catch_warnings(record=True) as wl:
            warnings.simplefilter('always')
            with np.errstate(all='ignore'):
                out1 = f(*args, **kw)
    except Exception as e:
        if kind == 'sim' and overlap:
            bump(res, 'overlapping_initial_sets_rejected')       # rejecting the inconsistent request is fine
            return res
        if kind == 'ode' and r0only:
            bump(res, 'only_initial_recovereds_rejected')
            return res
        viol(res, '%s|first_call|exception:%s' % (tag, simcase.exc_key(e)), {'err': repr(e)[:200]})
        return res
    if any('ODEint' in str(w.category) or 'lsoda' in str(w.message).lower() for w in wl):
        deterministic = False           # the solver gave up: its output buffer is not meaningful (and not reproducible)
        bump(res, 'solver_failures_not_compared')
    bump(res, 'calls_snapshotted')
    after = snapshot(args, kw, G, {'counters': {}})
    changed = diff(before, after)
    if changed:
        what = []
        for k in changed:
            b, a = before[k], after[k]
            what.append({'argument': k, 'kind': b[0], 'before': repr(b)[:120], 'after': repr(a)[:120]})
        argkind = before[changed[0]][0]
        viol(res, '%s|argument_modified|%s' % (tag, argkind if argkind != 'ndarray' else 'ndarray:' + ('shape' if before[changed[0]][1] != after[changed[0]][1] else 'values')),
             {'changed': what[:3]})
    # second call with the very same objects (a deterministic model returns the same whatever the state of the global generators)
    simcase.seed_all(case['seed'] + (1 if kind == 'ode' else 0))
    try:
        with warnings.catch_warnings():
            warnings.simplefilter('ignore')
            with np.errstate(all='ignore'):
                out2 = f(*args, **kw)
        bump(res, 'second_calls')
    except Exception as e:
        viol(res, '%s|second_call_with_same_arguments|exception:%s' % (tag, simcase.exc_key(e)), {'err': repr(e)[:200]})
        return res
    if deterministic:
        bump(res, 'deterministic_repeats_compared')
        try:
            same = (len(out1) == len(out2)) and all(_same(a, b) for a, b in zip(out1, out2)) if isinstance(out1, (tuple, list)) else _same(out1, out2)
        except Exception:
            same = True
        if not same:
            viol(res, '%s|repeated_call_returns_different_result' % tag, {})
    mutable = sum(1 for v in list(args) + list(kw.values()) if isinstance(v, (list, dict, set, np.ndarray, nx.Graph)))
    if mutable >= 2 or kind != 'misc':
        res['nontrivial'] = '%s:%s:%s' % (name, mode, gen.iso_key(case['graph']))
        res['sample'] = {'entry': name, 'mode': mode, 'arguments': sorted(before), 'graph': case['graph']}
    return res
