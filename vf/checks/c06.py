"""C06 - ODE outputs conserve the population and start from the requested state.

Post-conditions evaluated on every call of every analytic entry point (direct models fed with oracle-computed initial conditions, *_from_graph
wrappers with rho / explicit sets / sets with initially recovered nodes, both return modes): time grid, conservation, bounds, SIR monotonicity,
row at tmin == independent IC counter, and with return_full_data every auxiliary series at index 0 == oracle quantity in the documented order."""
import random, warnings
import numpy as np
from .. import gen, odereg, simcase
from ..runner import new_result, viol, bump, setmax, case_seed

PID = 'C06'
LEVEL = 'exploration'
RULE = ('cases: each of the 48 ODE entry points x {rho, explicit infected set, explicit infected + recovered sets} x {plain, return_full_data} x random '
        'graphs (gnp / regular / configuration / trees / grids / with isolated nodes, all label types; n<=14, n<=7 for the N^2- and k^2-variable systems) x '
        'rates incl. 0 x time grids with tmin != 0.  Cases in which numpy/odeint emit warnings are discarded and counted.  Non-trivial = I changes by more '
        'than 1e-6 N over the horizon; distinct = (entry point, IC form, mode, graph iso key).')
ASSUMPTIONS = ['solver tolerance constant 1e-6*N (conservation / bounds) and 1e-7*N (monotonicity), calibrated on the unchanged tree with >=100x margin',
               'layout of full-data tuples taken from the docstrings (sibling docstring where a docstring disagrees with its own code on arity)']
BUDGET = {'quick': 170, 'thorough': 1500}
CHUNK = {'quick': 12, 'thorough': 60}
CASE_TIMEOUT = 240
REQUIRED = ['calls_checked', 'tmin_slots_checked', 'full_layout_calls', 'conservation_rows_checked', 'monotonicity_checked', 'attack_rates_checked'] + ['entry:' + e for e in odereg.ALL]


def gen_cases(tier, seed):
    per = {'quick': 120, 'thorough': 3000}[tier]
    out = []
    k = 0
    for name in odereg.ALL:
        m = per if name not in odereg.HEAVY else max(8, per // 3)
        for j in range(m):
            k += 1
            cs = case_seed(seed, PID, k)
            r = random.Random(cs)
            c = odereg.random_ode_case(r, name)
            c['ic'] = ['rho', 'sets', 'sets'][j % 3]
            if j % 3 == 1:
                c['R0'] = []
            if j % 3 == 2 and not c['R0']:
                rest = [i for i in range(c['graph']['n']) if i not in c['I0']]
                degs = {}
                for u, v in c['graph']['edges']:
                    degs[u] = degs.get(u, 0) + 1
                    degs[v] = degs.get(v, 0) + 1
                cand = [x for x in rest if any(degs.get(y, 0) > 0 for y in rest if y != x)]
                if cand:
                    c['R0'] = [cand[r.randrange(len(cand))]]
            c['full'] = (j // 3) % 2 == 0
            if name in odereg.NODE_LEVEL and j % 2:
                perm = list(range(c['graph']['n']))
                r.shuffle(perm)
                c['nodelist_perm'] = perm       # caller's nodelist in an order unrelated to G.nodes()
            out.append(c)
    # final-size entry points (scalar output)
    for name in ATTACK:
        for j in range(per):
            k += 1
            cs = case_seed(seed, PID, k)
            r = random.Random(cs)
            c = odereg.random_ode_case(r, 'EBCM_from_graph')
            c['entry'] = name
            c['ic'] = ['rho', 'sets', 'sets'][j % 3]
            if j % 3 == 1:
                c['R0'] = []
            c['kind'] = 'attack'
            c['tau'] = r.choice([0.3, 0.8, 1.5])      # the final-size fixed point is only defined for positive rates
            c['gamma'] = r.choice([0.5, 1.0, 2.0])
            c['p'] = r.choice([0.2, 0.5, 0.9])
            out.append(c)
    return out


ATTACK = ['Attack_rate_discrete_from_graph', 'Attack_rate_cts_time_from_graph', 'Attack_rate_discrete', 'Attack_rate_cts_time']


def run_attack(case, res):
    import EoN
    name = case['entry']
    G, lab = gen.build_graph(case['graph'])
    I0 = [lab(i) for i in case['I0']]
    R0 = [lab(i) for i in case['R0']]
    use_rho = case['ic'] == 'rho'
    icc = 'rho' if use_rho else ('sets+R0' if R0 else 'sets')
    tag = '%s|%s|scalar' % (name, icc)
    Pk = EoN.get_Pk(G)
    bump(res, 'entry:' + name)
    try:
        if name.endswith('_from_graph'):
            a = [G, case['p']] if 'discrete' in name else [G, case['tau'], case['gamma']]
            kw = {'rho': case['rho']} if use_rho else dict(initial_infecteds=list(I0), initial_recovereds=(list(R0) or None))
            v = getattr(EoN, name)(*a, **kw)
        else:
            a = [Pk, case['p']] if 'discrete' in name else [Pk, case['tau'], case['gamma']]
            v = getattr(EoN, name)(*a, rho=case['rho'])
    except Exception as e:
        viol(res, '%s|exception:%s' % (tag, simcase.exc_key(e)), {'err': repr(e)[:200]})
        return
    bump(res, 'attack_rates_checked')
    if not (isinstance(v, (float, np.floating)) and -1e-9 <= v <= 1 + 1e-9):
        viol(res, '%s|fraction_within_0_1' % tag, {'value': repr(v)})
    res['nontrivial'] = '%s:%s:%s' % (name, icc, gen.iso_key(case['graph']))
    res['sample'] = {'entry': name, 'ic': icc, 'value': float(v), 'graph': case['graph']}


def ic_class(call):
    if call.use_rho:
        return 'rho'
    return 'sets+R0' if call.R0 else 'sets'


def _total(layout, vals, names, N):
    for nm in names:
        if nm in layout:
            v = np.asarray(vals[layout.index(nm)], dtype=float)
            if v.ndim <= 1:
                return v.reshape(-1)
            return v.reshape(-1, v.shape[-1]).sum(axis=0) if nm not in ('Xs', 'Ys', 'Zs') else v.sum(axis=0)
    return None


def expected_slot(call, key):
    ic = call.ic
    if getattr(call, 'dense_Ks', False) and key in ('SkKs', 'IkKs', 'RkKs', 'SkIl', 'SkSl', 'IkIl'):
        # direct call with Ks=None: everything is indexed by the degree itself
        if key in ('SkKs', 'IkKs', 'RkKs'):
            return np.asarray(ic[key[:2]], dtype=float)
        m1 = len(ic['Sk'])
        D = np.zeros((m1, m1))
        for a, ka in enumerate(ic['Ks']):
            for b, kb in enumerate(ic['Ks']):
                D[ka, kb] = ic[key][a, b]
        return D
    if key in ('S', 'I', 'R', 'SS', 'SI', 'II'):
        return float(ic[key])
    if key in ('Sk', 'Ik', 'Rk', 'SkIl', 'SkSl', 'IkIl', 'Ssi', 'Isi', 'Ssi_sir', 'Skappa'):
        return np.asarray(ic[key], dtype=float)
    if key in ('SkKs', 'IkKs', 'RkKs'):
        return np.asarray(ic[key[:2]], dtype=float)[ic['Ks']]
    if key == 'theta1':
        return 1.0
    nl = getattr(call, 'nodelist', None)
    if key in ('Xs', 'Ys', 'Zs'):
        if call.use_rho:
            return {'Xs': 1 - call.rho, 'Ys': call.rho, 'Zs': 0.0}[key] * np.ones(len(nl))
        st = ic['status']
        want = {'Xs': 'S', 'Ys': 'I', 'Zs': 'R'}[key]
        return np.array([1.0 if st[u] == want else 0.0 for u in nl])
    if key in ('XY', 'XX'):
        X = expected_slot(call, 'Xs')
        Y = expected_slot(call, 'Ys')
        n = len(nl)
        A = np.zeros((n, n))
        for i, u in enumerate(nl):
            for j, v in enumerate(nl):
                if call.G.has_edge(u, v):
                    A[i, j] = 1.0
        given = getattr(call, 'given_pairs', None) or {}
        if key in given:
            return given[key] * A              # the caller's own initial pair probabilities, restricted to the edges
        return (X[:, None] * (Y if key == 'XY' else X)[None, :]) * A
    return None


def run_case(case):
    res = new_result()
    name = case['entry']
    if case.get('kind') == 'attack':
        run_attack(case, res)
        return res
    call = odereg.build(case)
    icc = ic_class(call)
    mode = 'full' if call.full else 'plain'
    tag = '%s|%s|%s' % (name, icc, mode)
    N = call.N
    with warnings.catch_warnings(record=True) as wlist:
        warnings.simplefilter('always')
        try:
            with np.errstate(all='warn'):
                out = call.f(*call.args, **call.kw)
        except Exception as e:
            viol(res, '%s|exception:%s' % (tag, simcase.exc_key(e)), {'err': repr(e)[:300], 'graph': case['graph'], 'tau': case['tau'], 'gamma': case['gamma']})
            bump(res, 'entry:' + name)
            return res
    bump(res, 'entry:' + name)
    # (ODEintWarning derives from Warning directly, not from RuntimeWarning / UserWarning)
    num = [w for w in wlist if issubclass(w.category, RuntimeWarning) or 'ODEint' in str(w.category) or 'lsoda' in str(w.message).lower() or 'excess work' in str(w.message).lower()]
    if num:
        bump(res, 'discarded_numerical_warnings')
        return res
    bump(res, 'calls_checked')
    out = list(out)
    times = np.asarray(out[0], dtype=float)
    vals = out[1:]
    lay = odereg.layout(name, call.full)
    # ---- time grid
    if times.shape != call.times.shape or not np.allclose(times, call.times, rtol=0, atol=1e-12):
        viol(res, '%s|time_grid' % tag, {'returned': times[:4].tolist(), 'expected': call.times[:4].tolist(), 'len': [len(times), len(call.times)]})
        return res
    # ---- arity / layout
    if len(vals) != len(lay):
        if call.full and len(vals) == len(odereg.PLAIN[call.sir]):
            viol(res, '%s|return_full_data_ignored' % tag, {'returned_items': len(vals) + 1, 'documented': len(lay) + 1})
            lay = odereg.PLAIN[call.sir]
        else:
            viol(res, '%s|arity' % tag, {'returned_items': len(vals) + 1, 'documented': len(lay) + 1})
            return res
    if call.full:
        bump(res, 'full_layout_calls')
    # ---- totals
    S = _total(lay, vals, ['S', 'Sk', 'SkKs', 'Xs'], N)
    I = _total(lay, vals, ['I', 'Ik', 'IkKs', 'Ys'], N)
    R = _total(lay, vals, ['R', 'Rk', 'RkKs', 'Zs'], N) if call.sir else None
    if S is None or I is None or (call.sir and R is None):
        raise RuntimeError('layout without totals for %s' % name)
    T = len(times)
    if any(np.asarray(x).shape != (T,) for x in ([S, I] + ([R] if call.sir else []))):
        viol(res, '%s|series_shape' % tag, {'shapes': [list(np.asarray(x).shape) for x in [S, I]]})
        return res
    # The pairwise / effective-degree closures divide by [S]-type quantities; once the susceptible class is (numerically) exhausted the right-hand
    # sides are singular and the solver output is not meaningful (observed with gamma=0 on dense graphs: silent blow-up to 1e200 after S has
    # reached 0).  Rows after the first index at which S < 5e-3 N are therefore not judged (counted in the evidence); that row itself gets the
    # wide tolerance.
    cut = np.nonzero(S < 5e-3 * N)[0]
    tail = len(cut) > 0
    if tail:
        kcut = int(cut[0]) + 1
        bump(res, 'singular_tail_cases_truncated')
        S, I = S[:kcut], I[:kcut]
        if R is not None:
            R = R[:kcut]
    if not (np.all(np.isfinite(S)) and np.all(np.isfinite(I)) and (R is None or np.all(np.isfinite(R)))):
        bump(res, 'discarded_nonfinite')
        return res
    tot = S + I + (R if call.sir else 0)
    bump(res, 'conservation_rows_checked', len(S))
    slack = 5e-3 * N if tail else 1e-6 * N
    err = float(np.max(np.abs(tot - N)))
    setmax(res, 'max_conservation_error_over_N', err / N)
    if err > slack:
        k = int(np.argmax(np.abs(tot - N)))
        viol(res, '%s|population_conserved' % tag, {'index': k, 'S+I+R': float(tot[k]), 'N': N})
    lo, hi = -slack, N + slack
    for nm, x in (('S', S), ('I', I), ('R', R)):
        if x is not None and (x.min() < lo or x.max() > hi):
            viol(res, '%s|compartment_within_0_N' % tag, {'compartment': nm, 'min': float(x.min()), 'max': float(x.max()), 'N': N})
    if call.sir:
        bump(res, 'monotonicity_checked')
        if np.any(np.diff(S) > (5e-3 * N if tail else 1e-7 * N)):
            viol(res, '%s|S_nonincreasing' % tag, {'max_increase': float(np.diff(S).max())})
        if np.any(np.diff(R) < -(5e-3 * N if tail else 1e-7 * N)):
            viol(res, '%s|R_nondecreasing' % tag, {'max_decrease': float(np.diff(R).min())})
    # ---- row at tmin == oracle, slot by slot in documented order
    first = {'S': S[0], 'I': I[0]}
    if call.sir:
        first['R'] = R[0]
    for nm in first:
        bump(res, 'tmin_slots_checked')
        if abs(first[nm] - call.ic[nm]) > 1e-9 * N:
            viol(res, '%s|row_at_tmin|%s' % (tag, nm), {'got': float(first[nm]), 'requested': float(call.ic[nm]), 'N': N})
    for pos, key in enumerate(lay):
        if key in ('S', 'I', 'R'):
            continue
        v = vals[pos]
        if key == 'thetadict1':
            bump(res, 'tmin_slots_checked')
            try:
                ok = all(abs(np.asarray(v[k])[0] - 1.0) < 1e-12 for k in v)
            except Exception:
                ok = False
            if not ok:
                viol(res, '%s|full_slot_at_tmin|theta' % tag, {})
            continue
        exp = expected_slot(call, key)
        if exp is None:
            continue
        a = np.asarray(v, dtype=float)
        bump(res, 'tmin_slots_checked')
        want_shape = np.asarray(exp).shape + (T,)
        if a.shape != want_shape:
            viol(res, '%s|full_slot_shape|%s' % (tag, key), {'position': pos + 1, 'shape': list(a.shape), 'documented_shape': list(want_shape)})
            continue
        got0 = a[..., 0]
        if np.max(np.abs(got0 - exp)) > 1e-9 * max(N, 1):
            viol(res, '%s|full_slot_at_tmin|%s' % (tag, key), {'position': pos + 1, 'got': np.round(got0, 6).tolist() if got0.size < 30 else 'large',
                                                                'oracle': np.round(np.asarray(exp), 6).tolist() if np.asarray(exp).size < 30 else 'large'})
    if abs(I[-1] - I[0]) > 1e-6 * N or np.max(np.abs(I - I[0])) > 1e-6 * N:
        res['nontrivial'] = '%s:%s:%s:%s' % (name, icc, mode, gen.iso_key(case['graph']))
        res['sample'] = {'entry': name, 'ic': icc, 'mode': mode, 'graph': case['graph'], 'tau': case['tau'], 'gamma': case['gamma'], 'tmin': case['tmin'],
                         'row_at_tmin': [float(S[0]), float(I[0])] + ([float(R[0])] if call.sir else []), 'slots': lay}
    return res
