"""C02 - Gillespie_SIS / fast_SIS sample the exact network SIS chain (implementation: vf/markovcheck.py)."""
from ..markovcheck import MarkovCheck, LEVEL, ASSUMPTIONS, BUDGET, CHUNK, CASE_TIMEOUT, RULE
_c = MarkovCheck('C02', 'SIS')
PID = 'C02'
gen_cases, run_case = _c.gen_cases, _c.run_case
REQUIRED = ['steps_law_checked', 'type_tests_checked', 'selections_checked', 'thresholds_checked', 'effects_checked',
            'terminations_checked', 'e3_states_expanded', 'fast_runs_checked', 'rate_params_checked',
            'sis_attempts_checked', 'sis_pops_checked', 'sis_redraws_seen', 'sis_wasted_transmissions_seen', 'e6_tests', 'rescale_tests', 'rescale_who_events', 'rescale_uneven_or_hub_cases', 'rescale_long_run_cases', 'endurance_runs_completed', 'e2_runs_on_networks_of_hundreds_of_nodes']
