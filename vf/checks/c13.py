"""C13 - fast_nonMarkov_SIS follows the plain reference semantics (exact history comparison with a naive event-list simulator
that queues every attempt individually); exponential rules vs the SIS master equation."""
import random, heapq, hashlib, math
import numpy as np
from .. import gen, simreg, simcase, stats
from ..runner import new_result, viol, bump, setmax, case_seed
from ..oracles import ctmc

PID = 'C13'
LEVEL = 'exploration'
RULE = ('exact: random/boundary graphs n<=8 x harness tables (duration per (node, occurrence); 0-3 ascending delays < duration per (node, neighbour, '
        'occurrence); continuous values => distinct event times, verified) x initial sets x tmin in {0,-2,1.5} x three horizons x both entry forms x '
        'both return modes, reinfection-heavy tables included.  law: exponential rules on graphs n<=4, state vector at T vs 2^N master equation. '
        'Non-trivial = at least one reinfection or >=3 infections; distinct = (kind, graph iso key, attempts profile, horizon class).')
ASSUMPTIONS = ['user delay lists are ascending; three profiles keep them shorter than the duration (documented use), the profile late also lists attempts after the recovery of the source (the statement says: for every listed delay)', 'event times are distinct (checked per case; cases with ties are discarded and counted)']
BUDGET = {'quick': 150, 'thorough': 1200}
CHUNK = {'quick': 30, 'thorough': 150}
REQUIRED = ['histories_compared', 'reinfections_seen', 'blocked_attempts_seen', 'user_fn_args_checked', 'law_tests', 'late_attempt_cases', 'stored_delay_lists_handed_out_again', 'horizons_placed_exactly_on_an_event', 'self_infections_in_reference']
INF = float('inf')


def gen_cases(tier, seed):
    q = tier == 'quick'
    n = 12000 if q else 400000
    out = []
    for k in range(n):
        cs = case_seed(seed, PID, k)
        r = random.Random(cs)
        desc = gen.random_graph(r, 1, 8)
        desc['labels'] = r.choice(gen.LABEL_SCHEMES)
        nn = desc['n']
        if r.random() < 0.15:
            # self-loops (nx.Graph(nx.configuration_model(...)) keeps them): the node is then one of its own neighbours, and a listed delay
            # beyond its own duration reaches it when it is susceptible again
            desc = dict(desc)
            desc['edges'] = [list(e) for e in desc['edges']] + [[i, i] for i in r.sample(range(nn), r.randint(1, min(nn, 2)))]
            desc['selfloops'] = True
        if r.random() < 0.2:
            desc = dict(desc)
            desc['directed'] = True        # contacts with a direction (a node may have in-edges and no out-edge)
        I0 = r.sample(range(nn), r.randint(1, min(nn, 3)))
        tmin = r.choice([0, -2, 1.5, -0.5, 1600000000])          # incl. an absolute clock (seconds since an epoch)
        tmax = tmin + r.choice([1.0, 3.0, 7.0])
        if tmin < 0 and r.random() < 0.4:
            tmax = r.choice([0, 0.0])          # horizon exactly zero (a falsy number) after a negative start
        out.append({'kind': 'exact', 'graph': desc, 'I0': I0, 'tmin': tmin, 'tmax': tmax, 'tmax_on_event': r.random() < 0.25,
                    'profile': r.choice(['sparse', 'dense', 'heavy', 'late', 'stored']), 'form': r.choice(['sep', 'joint']), 'full': r.random() < 0.6, 'seed': cs})
    runs = 20000 if q else 250000
    ncfg = 4 if q else 12
    small = [g for g in gen.atlas(4, 2) if g['edges']]
    for k in range(ncfg):
        cs = case_seed(seed, PID + 'law', k)
        r = random.Random(cs)
        desc = dict(r.choice(small))
        nn = desc['n']
        out.append({'kind': 'law', 'graph': desc, 'I0': r.sample(range(nn), r.randint(1, 2)), 'tmin': 0, 'T': r.choice([0.7, 1.5]),
                    'tau': r.choice([1.0, 2.5]), 'gamma': r.choice([1.0, 0.6]), 'form': r.choice(['sep', 'joint']), 'runs': runs, 'seed': cs, 'ntests': ncfg})
    return out


def _u(seed, *key):
    h = hashlib.sha256(repr((seed,) + key).encode()).digest()
    return int.from_bytes(h[:7], 'big') / float(1 << 56)


def table_duration(seed, i, occ):
    return 0.3 + 2.2 * _u(seed, 'd', i, occ)


def table_delays(seed, profile, i, j, occ, dur):
    if profile == 'stored':
        # a schedule the user keeps per contact (an edge attribute, a stored table): the same values for every infectious period
        k = 1 + int(_u(seed, 'k', i, j) * 3)
        return sorted(0.05 + 1.6 * _u(seed, 'v', i, j, m) for m in range(k))
    u = _u(seed, 'k', i, j, occ)
    if profile == 'sparse':
        k = 0 if u < 0.4 else (1 if u < 0.8 else 2)
    elif profile == 'dense':
        k = 1 + int(u * 3)
    elif profile == 'late':
        # "for every listed delay": attempts listed after the node's own recovery are still attempts of the reference semantics
        k = 1 + int(u * 3)
        return sorted(dur * (0.02 + 2.4 * _u(seed, 'v', i, j, occ, m)) for m in range(k))
    else:
        k = 3
    return sorted(dur * (0.02 + 0.96 * _u(seed, 'v', i, j, occ, m)) for m in range(k))


def reference(n, nbrs, seed, profile, I0, tmin, tmax):
    """naive simulator: every attempt queued individually."""
    status = ['S'] * n
    occ = [0] * n
    heap = []
    cnt = [0]

    def push(t, kind, a, b=None):
        cnt[0] += 1
        heapq.heappush(heap, (t, cnt[0], kind, a, b))
    for i in I0:
        push(tmin, 'att', None, i)
    hist = {i: ([tmin], ['S']) for i in range(n)}
    trans = []
    rows = []
    times_seen = []
    nS, nI = n, 0
    blocked = 0
    while heap:
        t, _, kind, a, b = heapq.heappop(heap)
        if not (t < tmax):
            break
        if kind == 'rec':
            status[a] = 'S'
            hist[a][0].append(t)
            hist[a][1].append('S')
            nS, nI = nS + 1, nI - 1
            rows.append((t, nS, nI))
            times_seen.append(t)
        else:
            if status[b] != 'S':
                blocked += 1
                times_seen.append(t)       # an attempt that coincides with another event (e.g. two sources reaching a node at once) is a tie
                continue
            status[b] = 'I'
            if t == tmin and hist[b][0] == [tmin]:
                hist[b] = ([tmin], ['I'])
            else:
                hist[b][0].append(t)
                hist[b][1].append('I')
            trans.append((t, a, b))
            nS, nI = nS - 1, nI + 1
            rows.append((t, nS, nI))
            if a is not None:
                times_seen.append(t)
            d = table_duration(seed, b, occ[b])
            push(t + d, 'rec', b)
            for j in nbrs[b]:
                for dl in table_delays(seed, profile, b, j, occ[b], d):
                    push(t + dl, 'att', b, j)
            occ[b] += 1
    distinct = len(set(times_seen)) == len(times_seen)
    return hist, trans, rows, distinct, blocked, occ


def run_exact(case, res):
    import EoN
    G, lab = gen.build_graph(case['graph'])
    n = case['graph']['n']
    idx = {lab(i): i for i in range(n)}
    nodes = list(G)
    nbrs = {i: [idx[v] for v in G.neighbors(lab(i))] for i in range(n)}
    seed, profile = case['seed'], case['profile']
    tmin, tmax = case['tmin'], case['tmax']
    hist, trans, rows, distinct, blocked, occs = reference(n, nbrs, seed, profile, case['I0'], tmin, tmax)
    if case.get('tmax_on_event') and distinct:
        # the horizon placed exactly on the time of an infection of the untruncated history (a tmax copied from an earlier run, rules on
        # a grid): "events at or after tmax are not reported" includes the event at tmax itself
        later = [t for (t, a, b) in trans if a is not None and t > tmin]
        if later:
            tmax = later[(seed // 7) % len(later)]
            hist, trans, rows, distinct, blocked, occs = reference(n, nbrs, seed, profile, case['I0'], tmin, tmax)
            bump(res, 'horizons_placed_exactly_on_an_event')
    if not distinct:
        bump(res, 'discarded_ties')
        return
    occ = {}
    last_dur = {}
    argbad = []

    def rtf(u, *tags):
        if tags != ('b', 'bb'):
            argbad.append(('rec_time_fxn extra arguments', tags, None, None))
        i = idx[u]
        k = occ.get(i, 0)
        occ[i] = k + 1
        d = table_duration(seed, i, k)
        last_dur[i] = d
        return d

    def ttf(u, v, rec_delay, *tags):
        if tags != ('a',):
            argbad.append(('trans_time_fxn extra arguments', tags, None, None))
        i, j = idx[u], idx[v]
        bump(res, 'user_fn_args_checked')
        if rec_delay != last_dur.get(i):
            argbad.append((i, j, rec_delay, last_dur.get(i)))
        return delays_for(i, j, occ[i] - 1, last_dur[i])

    store = {}

    def delays_for(i, j, k, d):
        if profile != 'stored':
            return table_delays(seed, profile, i, j, k, d)
        # the user hands out the very list object it keeps (no copy), every time this contact is asked about
        if (i, j) not in store:
            store[(i, j)] = table_delays(seed, profile, i, j, k, d)
        else:
            bump(res, 'stored_delay_lists_handed_out_again')
        return store[(i, j)]

    def joint(u, nb, *tags):
        if tags != ('c', 'cc', 'ccc'):
            argbad.append(('trans_and_rec_time_fxn extra arguments', tags, None, None))
        d = rtf(u, 'b', 'bb')
        i = idx[u]
        return {v: delays_for(i, idx[v], occ[i] - 1, d) for v in nb}, d
    if case['form'] == 'sep':
        kw = dict(trans_time_fxn=ttf, rec_time_fxn=rtf, trans_time_args=('a',), rec_time_args=('b', 'bb'))
    else:
        kw = dict(trans_and_rec_time_fxn=joint, trans_and_rec_time_args=('c', 'cc', 'ccc'))
        bump(res, 'user_fn_args_checked')
    mode = 'full' if case['full'] else 'arrays'
    try:
        I0arg = [lab(i) for i in case['I0']]
        if len(I0arg) == 1 and seed % 2:
            I0arg = I0arg[0]           # 'node or iterable of nodes': a single node (whatever its label type: tuple, str, frozenset ...)
            bump(res, 'single_node_initial_infecteds')
        out = EoN.fast_nonMarkov_SIS(G, initial_infecteds=I0arg, tmin=tmin, tmax=tmax, return_full_data=case['full'], **kw)
    except Exception as e:
        viol(res, 'fast_nonMarkov_SIS|%s|exception:%s' % (mode, simcase.exc_key(e)), {'err': repr(e)})
        return
    if argbad:
        viol(res, 'fast_nonMarkov_SIS|' + ('delay_function_receives_the_infection_duration' if not isinstance(argbad[0][0], str) else 'rule_receives_its_own_extra_arguments'), {'node,nbr,passed,drawn': [repr(x) for x in argbad[0]]})
        return
    bump(res, 'histories_compared')
    if G.is_directed():
        bump(res, 'histories_compared_on_directed_networks')
    if case['graph'].get('selfloops'):
        bump(res, 'histories_compared_on_graphs_with_self_loops')
        bump(res, 'self_infections_in_reference', sum(1 for (t_, a_, b_) in trans if a_ is not None and a_ == b_))
    for (i, j), lst in store.items():
        if lst != table_delays(seed, profile, i, j, 0, 0):
            viol(res, 'fast_nonMarkov_SIS|user_delay_list_modified', {'contact': [i, j], 'now': lst, 'was': table_delays(seed, profile, i, j, 0, 0)})
            return
    if profile == 'late':
        bump(res, 'late_attempt_cases')
    reinf = sum(1 for k in occs if k >= 2)
    bump(res, 'reinfections_seen', reinf)
    bump(res, 'blocked_attempts_seen', blocked)
    if case['full']:
        for i in range(n):
            ts, ss = map(list, out.node_history(lab(i)))
            if (ts, ss) != (hist[i][0], hist[i][1]):
                k = next((m for m in range(min(len(ts), len(hist[i][0]))) if (ts[m], ss[m]) != (hist[i][0][m], hist[i][1][m])), min(len(ts), len(hist[i][0])))
                viol(res, 'fast_nonMarkov_SIS|full|history_equals_reference', {'node': i, 'first_difference_at': k, 'reported': [ts[:k + 2], ss[:k + 2]],
                                                                                'reference': [hist[i][0][:k + 2], hist[i][1][:k + 2]], 'profile': profile, 'tmax': tmax})
                return
        got = [(t, None if a is None else idx[a], idx[b]) for t, a, b in out.transmissions()]
        if got != trans:
            viol(res, 'fast_nonMarkov_SIS|full|transmissions_equal_reference', {'reported': got[:5], 'reference': trans[:5]})
            return
    else:
        t, S, I = [np.asarray(a).tolist() for a in out]
        k0 = len(case['I0'])
        exp = [(tmin, n - k0, k0)] + [r for r in rows[k0:]]
        got = list(zip(t, S, I))
        if got != exp:
            viol(res, 'fast_nonMarkov_SIS|arrays|rows_equal_reference', {'reported': got[:6], 'reference': exp[:6], 'tmax': tmax})
            return
    if reinf or len(trans) >= 3:
        res['nontrivial'] = 'exact:%s:%s:%s:%s' % (gen.iso_key(case['graph']), profile, tmax - tmin, mode)
        res['sample'] = {'kind': 'exact', 'graph': case['graph'], 'I0': case['I0'], 'profile': profile, 'infections': len(trans), 'reinfected_nodes': reinf,
                         'blocked_attempts': blocked, 'tmin': tmin, 'tmax': tmax}


def run_law(case, res):
    import EoN
    G, lab = gen.build_graph(case['graph'])
    n = case['graph']['n']
    tau, gamma, T = case['tau'], case['gamma'], case['T']
    ew = {}
    for u, v in case['graph']['edges']:
        ew[(u, v)] = ew[(v, u)] = 1.0
    nw = {i: 1.0 for i in range(n)}
    states, index, Q = ctmc.build_chain(n, [tuple(e) for e in case['graph']['edges']], tau, gamma, ew, nw, 'SIS')
    s0 = tuple('I' if i in case['I0'] else 'S' for i in range(n))
    law = ctmc.state_at_T(states, index, Q, s0, T)
    rule = {'kind': 'exp', 'tau': tau, 'gamma': gamma, 'form': case['form']}
    kw = simreg.make_sis_rule(rule, G)
    nodes = [lab(i) for i in range(n)]

    def observe(runs, seed):
        simcase.seed_all(seed)
        obs = {}
        for _ in range(runs):
            sim = EoN.fast_nonMarkov_SIS(G, initial_infecteds=[lab(i) for i in case['I0']], tmin=0, tmax=T + 1.0, return_full_data=True, **kw)
            d = sim.get_statuses(nodes, T)
            st = tuple(d[u] for u in nodes)
            obs[st] = obs.get(st, 0) + 1
        return obs
    alpha = stats.ALPHA_RUN / max(1, case['ntests'])
    try:
        obs = observe(case['runs'], case['seed'])
    except Exception as e:
        viol(res, 'fast_nonMarkov_SIS|law|exception:%s' % simcase.exc_key(e), {'err': repr(e)})
        return
    g = stats.gof(obs, law)
    bump(res, 'law_tests')
    setmax(res, 'law_max_neglog10_p', -math.log10(max(g['p'], 1e-300)))
    if g['impossible']:
        viol(res, 'fast_nonMarkov_SIS|law|impossible_state', {'states': [list(s) for s in g['impossible'][:3]]})
        return
    if g['p'] < alpha:
        g2 = stats.gof(observe(4 * case['runs'], case['seed'] + 7919), law)
        if g2['p'] < alpha:
            viol(res, 'fast_nonMarkov_SIS|law|state_at_T_equals_master_equation', {'chi2': g2['stat'], 'dof': g2['dof'], 'p': g2['p'], 'first_stage_p': g['p'],
                                                                                 'graph': case['graph'], 'tau': tau, 'gamma': gamma, 'T': T})
    res['nontrivial'] = 'law:%s:%s:%s:%s' % (gen.iso_key(case['graph']), tau, gamma, T)
    res['sample'] = {'kind': 'law', 'graph': case['graph'], 'tau': tau, 'gamma': gamma, 'T': T, 'runs': case['runs'], 'chi2': g['stat'], 'dof': g['dof'], 'p': g['p']}


def run_case(case):
    res = new_result()
    (run_exact if case['kind'] == 'exact' else run_law)(case, res)
    return res
