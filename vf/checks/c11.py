"""C11 - event-driven SIR with arbitrary delays equals first-passage percolation (exact comparison with Dijkstra on
harness-generated delay/duration tables incl. ties, 0 and inf; percolation builders; get_infected_nodes)."""
import random
import numpy as np
import networkx as nx
from .. import gen, simreg, simcase, rngprobe
from ..runner import new_result, viol, bump, case_seed
from ..oracles import percolation as perc
from ..oracles.history import merge_equal_times

PID = 'C11'
LEVEL = 'exploration'
RULE = ('cases: random/boundary graphs n<=9 x delay/duration tables drawn from value sets {0,1,2}, {0.5,1,1,2,inf}, {0,0,1}, continuous '
        '(so ties, zero and infinite values occur) x initial infected / recovered sets x tmin in {0,-2,1.5} x finite/infinite tmax x both '
        'entry forms x both return modes x shuffled node/edge insertion and initial-set order (the ways the real queue can meet simultaneous '
        'events).  Builders and get_infected_nodes on the same tables / recorded exponential draws.  Non-trivial = at least one non-initial '
        'infection in the oracle; distinct = (kind, graph iso key, value set, tmax class).')
ASSUMPTIONS = ['user functions are deterministic tables (so the first-passage solution is unique up to ties in the infector)']
BUDGET = {'quick': 150, 'thorough': 1200}
CHUNK = {'quick': 40, 'thorough': 200}
REQUIRED = ['builder_runs_on_multigraphs_with_parallel_edges', 'fast_SIR_weighted_path_runs', 'fast_SIR_weighted_path_runs_on_directed_networks', 'sim_nodes_checked', 'infectors_checked', 'array_rows_checked', 'builder_arcs_checked', 'markov_builder_draws_checked',
            'get_infected_checked', 'tie_cases', 'one_shot_recovered_iterables']
VALUE_SETS = {'small_int': [0, 1, 2], 'ties_inf': [0.5, 1, 1, 2, float('inf')], 'zeros': [0, 0, 1], 'cont': None, 'dyadic': [0.25, 0.5, 0.75, 1.5],
              # values one unit in the last place apart: 0.1+0.2 > 0.3, 0.2+0.4 > 0.6, 0.7+0.1 < 0.8 - "delay <= duration" is an exact comparison
              'ulp': [0.3, 0.1 + 0.2, 0.6, 0.2 + 0.4, 0.8, 0.7 + 0.1, 1.0],
              # whole seconds on an absolute clock (start time of the order of 1e9): nothing is 'close enough' to a tie
              'epoch': [0, 1, 2, 3, 5]}
INF = float('inf')


def gen_cases(tier, seed):
    n = {'quick': 21000, 'thorough': 700000}[tier]
    out = []
    kinds = ['sim', 'sim', 'sim', 'sim', 'builder', 'markov_builder', 'get_infected']
    for j in range(600 if tier == 'quick' else 20000):
        cs = case_seed(seed, PID + 'fsir', j)
        r = random.Random(cs)
        desc = gen.random_graph(r, 2, 10)
        if j % 10 in (3, 6, 9):
            # contacts with a direction; the two arcs of a reciprocated pair carry their own weights
            desc = gen.random_digraph(r, 2, 8)
            desc['p_dense'] = True
        desc['labels'] = r.choice(gen.LABEL_SCHEMES)
        c = simcase.make_markov_case(r, desc, weight_mode=r.choice(['edge', 'both', 'edge', 'none']), tmins=(0, -3, 2.5, 7.25))
        if c['wm'] == 'none':
            c['tau'], c['gamma'] = r.choice([(0.0, 1.0), (1.0, 0.0)])       # zero-rate path
        c.update({'kind': 'fast_sir', 'seed': cs, 'tmax': r.choice(['inf', 'inf', c['tmin'] + 1.5])})
        out.append(c)
    for k in range(n):
        cs = case_seed(seed, PID, k)
        r = random.Random(cs)
        desc = gen.random_graph(r, 1, 9)
        desc['labels'] = r.choice(gen.LABEL_SCHEMES)
        if r.random() < 0.5:
            desc = gen.shuffle_desc(r, desc)
        nn = desc['n']
        if kinds[k % len(kinds)] == 'sim' and r.random() < 0.15:
            desc = dict(desc)
            desc['directed'] = True        # contacts with a direction
        vs = r.choice(list(VALUE_SETS))
        vals = VALUE_SETS[vs]

        def val(lo=0.0, hi=3.0):
            return r.choice(vals) if vals else round(r.uniform(lo, hi), 6)
        dur = [val(0.1, 3.0) for _ in range(nn)]
        dl = {}
        for (u, v) in desc['edges']:
            dl['%d,%d' % (u, v)] = val()
            dl['%d,%d' % (v, u)] = val()
        k0 = r.randint(1, min(nn, 3))
        I0 = r.sample(range(nn), k0)
        rest = [i for i in range(nn) if i not in I0]
        R0 = r.sample(rest, r.randint(0, min(2, len(rest)))) if r.random() < 0.4 else []
        tmin = r.choice([0, -2, 1.5])
        tmax = r.choice(['inf', 'inf', tmin + 1, tmin + 2, tmin + 3.5, tmin + 0.5])
        if tmin < 0 and r.random() < 0.3:
            tmax = r.choice([0, 0.0])         # horizon exactly zero (falsy) after a negative start
        if vs == 'epoch':
            tmin = 1700000000
            tmax = r.choice(['inf', 'inf', tmin + 4, tmin + 7])
        if tmin == 0 and tmax != 0 and vs != 'epoch' and r.random() < 0.25:
            # the same rule tables in another time unit (nanoseconds ... years); the horizon is scaled with them
            unit = r.choice([1e-10, 1e-13, 1e7])
            dur = [x * unit for x in dur]
            dl = {kk: x * unit for kk, x in dl.items()}
            if tmax != 'inf':
                tmax = tmin + (tmax - tmin) * unit
        out.append({'kind': kinds[k % len(kinds)], 'graph': desc, 'vs': vs, 'dur': ['inf' if x == INF else x for x in dur],
                    'delay': {kk: ('inf' if x == INF else x) for kk, x in dl.items()}, 'I0': I0, 'R0': R0, 'tmin': tmin, 'tmax': tmax,
                    'form': r.choice(['sep', 'joint']), 'full': r.random() < 0.6, 'seed': cs,
                    'tau': r.choice([0.0, 0.5, 1.0, 3.0]), 'gamma': r.choice([0.0, 0.5, 1.0, 2.0])})
    return out


def _f(x):
    return INF if x == 'inf' else x


def tables(case, lab):
    dur = {lab(i): _f(x) for i, x in enumerate(case['dur'])}
    delay = {}
    for kk, x in case['delay'].items():
        u, v = kk.split(',')
        delay[(lab(int(u)), lab(int(v)))] = _f(x)
    return dur, delay


def _norm(ts, ss):
    """drop zero-length phases: of several entries with the same time only the last is observable by any query"""
    T, S = [], []
    for t, x in zip(ts, ss):
        if T and T[-1] == t:
            S[-1] = x
        else:
            T.append(t)
            S.append(x)
    return T, S


def run_sim(case, res):
    import EoN
    G, lab = gen.build_graph(case['graph'])
    dur, delay = tables(case, lab)
    nodes = list(G)
    nbrs = {u: list(G.neighbors(u)) for u in nodes}
    I0 = [lab(i) for i in case['I0']]
    R0 = [lab(i) for i in case['R0']]
    tmin, tmax = case['tmin'], _f(case['tmax'])
    arcs = perc.kept_arcs(nodes, nbrs, dur, delay, removed=R0)
    dist, preds = perc.dijkstra([u for u in nodes if u not in R0], arcs, I0, start=tmin)
    calls = {'trans': 0, 'rec': 0}
    argbad = []          # each rule must be handed its own extra arguments (different values and arity)
    if case['form'] == 'sep':
        def ttf(u, v, *tags):
            calls['trans'] += 1
            if tags != ('a',):
                argbad.append(('trans_time_fxn', tags))
            return delay[(u, v)]

        def rtf(u, *tags):
            calls['rec'] += 1
            if tags != ('b', 'bb'):
                argbad.append(('rec_time_fxn', tags))
            return dur[u]
        kw = dict(trans_time_fxn=ttf, rec_time_fxn=rtf, trans_time_args=('a',), rec_time_args=('b', 'bb'))
    else:
        def joint(node, sus, *tags):
            calls['rec'] += 1
            if tags != ('c', 'cc', 'ccc'):
                argbad.append(('trans_and_rec_time_fxn', tags))
            return {v: delay[(node, v)] for v in sus}, dur[node]
        kw = dict(trans_and_rec_time_fxn=joint, trans_and_rec_time_args=('c', 'cc', 'ccc'))
    kw.update(initial_infecteds=list(I0), tmin=tmin, tmax=tmax, return_full_data=case['full'])
    if R0:
        # "iterable of nodes": list, tuple, set or a one-shot iterator / generator (e.g. G.neighbors(x))
        form = ['list', 'iterator', 'set', 'generator', 'tuple'][case['seed'] % 5]
        kw['initial_recovereds'] = {'list': list(R0), 'tuple': tuple(R0), 'set': set(R0), 'iterator': iter(list(R0)), 'generator': (x for x in list(R0))}[form]
        if form in ('iterator', 'generator'):
            bump(res, 'one_shot_recovered_iterables')
    mode = 'full' if case['full'] else 'arrays'
    try:
        out = EoN.fast_nonMarkov_SIR(G, **kw)
    except Exception as e:
        viol(res, 'fast_nonMarkov_SIR|%s|exception:%s' % (mode, simcase.exc_key(e)), {'err': repr(e)})
        return
    bump(res, 'rule_extra_argument_runs')
    if G.is_directed():
        bump(res, 'sim_runs_on_directed_networks')
    if argbad:
        viol(res, 'fast_nonMarkov_SIR|%s|rule_receives_its_own_extra_arguments' % mode, {'rule': argbad[0][0], 'received': repr(argbad[0][1])})
        return
    # oracle event list
    inf_t = {v: dist[v] for v in dist if dist[v] < tmax}
    rec_t = {v: inf_t[v] + dur[v] for v in inf_t if inf_t[v] + dur[v] < tmax}
    ties = len(set(inf_t.values())) < len(inf_t) or any(len(preds[v]) > 1 for v in inf_t)
    if ties:
        bump(res, 'tie_cases')
    if case['full']:
        for v in nodes:
            ts, ss = out.node_history(v)
            ts, ss = list(ts), list(ss)
            bump(res, 'sim_nodes_checked')
            if v in R0:
                exp = ([tmin], ['R'])
            elif v in inf_t:
                exp_t, exp_s = [], []
                if inf_t[v] > tmin:
                    exp_t, exp_s = [tmin], ['S']
                exp_t.append(inf_t[v])
                exp_s.append('I')
                if v in rec_t:
                    exp_t.append(rec_t[v])
                    exp_s.append('R')
                exp = (exp_t, exp_s)
            else:
                exp = ([tmin], ['S'])
            if _norm(ts, ss) != _norm(*exp):
                pred = 'infection_time' if ('I' in ss) != ('I' in exp[1]) or (('I' in ss) and ts[ss.index('I')] != exp[0][exp[1].index('I')]) else \
                    ('recovery_time' if ('R' in ss) != ('R' in exp[1]) or (('R' in ss) and ts[ss.index('R')] != exp[0][exp[1].index('R')]) else 'history_shape')
                viol(res, 'fast_nonMarkov_SIR|full|%s' % pred, {'node': repr(v), 'reported': [ts, ss], 'first_passage': [exp[0], exp[1]], 'tmax': tmax, 'vs': case['vs']})
                return
        tr = list(out.transmissions())
        for (t, u, v) in tr:
            if u is None:
                continue
            bump(res, 'infectors_checked')
            if v not in inf_t or t != inf_t[v] or u not in preds[v]:
                viol(res, 'fast_nonMarkov_SIR|full|infector_is_shortest_path_predecessor', {'entry': [t, repr(u), repr(v)], 'admissible': [repr(x) for x in preds.get(v, [])], 'time': inf_t.get(v)})
                return
        if {v for (t, u, v) in tr} != set(inf_t):
            viol(res, 'fast_nonMarkov_SIR|full|transmissions_cover_infections', {})
    else:
        t, S, I, R = [np.asarray(a).tolist() for a in out]
        T, C = merge_equal_times(t, [S, I, R])
        ev = sorted(set([tmin] + list(inf_t.values()) + list(rec_t.values())))
        N = len(nodes)
        exp_rows = []
        for tt in ev:
            ni = sum(1 for v in inf_t if inf_t[v] <= tt)
            nr = sum(1 for v in rec_t if rec_t[v] <= tt)
            exp_rows.append((N - len(R0) - ni, ni - nr, nr + len(R0)))
        got_rows = list(zip(*C)) if T else []
        bump(res, 'array_rows_checked', len(ev))
        if T != ev or [tuple(x) for x in got_rows] != exp_rows:
            viol(res, 'fast_nonMarkov_SIR|arrays|rows_equal_event_list', {'t': T[:8], 'rows': got_rows[:8], 'oracle_t': ev[:8], 'oracle_rows': exp_rows[:8], 'tmax': tmax})
            return
        if len(t) != 1 + (len(inf_t) - len(I0)) + len(rec_t):
            viol(res, 'fast_nonMarkov_SIR|arrays|one_row_per_event', {'rows': len(t), 'events': 1 + len(inf_t) - len(I0) + len(rec_t)})
    if len(inf_t) > len(I0):
        res['nontrivial'] = 'sim:%s:%s:%s:%s' % (gen.iso_key(case['graph']), case['vs'], 'inf' if tmax == INF else 'fin', mode)
        res['sample'] = {'kind': 'sim', 'graph': case['graph'], 'durations': case['dur'], 'delays': case['delay'], 'I0': case['I0'], 'R0': case['R0'],
                         'tmin': tmin, 'tmax': case['tmax'], 'infected': len(inf_t), 'ties': ties}


def run_builder(case, res):
    import EoN
    G, lab = gen.build_graph(case['graph'])
    dur, delay = tables(case, lab)
    nodes = list(G)
    nbrs = {u: list(G.neighbors(u)) for u in nodes}
    arcs = perc.kept_arcs(nodes, nbrs, dur, delay)
    weights = case['full']
    asked = {}

    def ttf(u, v, a):
        # one answer per contact: a stochastic rule would answer differently when asked again, so the second answer for the same
        # ordered pair is 0.0 ("transmits at once"), which would add the arc
        asked[(u, v)] = asked.get((u, v), 0) + 1
        return delay[(u, v)] if asked[(u, v)] == 1 else 0.0
    if case['seed'] % 3 == 0 and G.number_of_edges() and not G.is_directed():
        # the raw nx.configuration_model MultiGraph: several parallel edges are still one neighbour
        M = nx.MultiGraph()
        M.add_nodes_from(G.nodes(data=True))
        M.add_edges_from(G.edges(data=True))
        rr = random.Random(case['seed'] + 3)
        for e in rr.sample(list(G.edges()), min(G.number_of_edges(), rr.randint(1, 3))):
            for _ in range(rr.randint(1, 3)):
                M.add_edge(*e)
        G = M
        bump(res, 'builder_runs_on_multigraphs_with_parallel_edges')
    try:
        H = EoN.nonMarkov_directed_percolate_network_with_timing(G, ttf, lambda u, b: dur[u], ('a',), ('b',), weights=weights)
    except Exception as e:
        viol(res, 'nonMarkov_directed_percolate_network_with_timing|exception:%s' % simcase.exc_key(e), {'err': repr(e)})
        return
    bump(res, 'builder_arcs_checked', len(arcs) + 1)
    if set(H.nodes()) != set(nodes) or not H.is_directed():
        viol(res, 'nonMarkov_directed_percolate_network_with_timing|same_nodes', {'H': len(H), 'G': len(nodes)})
        return
    if set(H.edges()) != set(arcs):
        extra = [e for e in H.edges() if e not in arcs][:2]
        missing = [e for e in arcs if not H.has_edge(*e)][:2]
        viol(res, 'nonMarkov_directed_percolate_network_with_timing|arcs_iff_delay_le_duration',
             {'extra': [[repr(a), repr(b), delay[(a, b)], dur[a]] for a, b in extra], 'missing': [[repr(a), repr(b), delay[(a, b)], dur[a]] for a, b in missing]})
        return
    if weights:
        if any(H.nodes[u].get('duration') != dur[u] for u in nodes) or any(H.edges[e].get('delay_to_infection') != arcs[e] for e in arcs):
            viol(res, 'nonMarkov_directed_percolate_network_with_timing|attributes', {})
    if arcs:
        res['nontrivial'] = 'builder:%s:%s' % (gen.iso_key(case['graph']), case['vs'])
        res['sample'] = {'kind': 'builder', 'graph': case['graph'], 'arcs_kept': len(arcs)}


def _markov_tables_from_log(G, log, tau, gamma):
    """directed_percolate_network draws, per node in G.nodes() order: Exp(gamma) (if gamma>0) then Exp(tau) per neighbour (if tau>0)."""
    i = 0
    dur, delay = {}, {}
    bad = None
    for u in G.nodes():
        if gamma > 0:
            e = log[i]
            i += 1
            if e[0] != 'expo' or abs(e[1] - gamma) > 1e-12:
                bad = ('recovery_rate', e)
                break
            dur[u] = e[2]
        else:
            dur[u] = INF
        for v in G.neighbors(u):
            if tau > 0:
                e = log[i]
                i += 1
                if e[0] != 'expo' or abs(e[1] - tau) > 1e-12:
                    bad = ('transmission_rate', e)
                    break
                delay[(u, v)] = e[2]
            else:
                delay[(u, v)] = INF
        if bad:
            break
    if not bad and i != len(log):
        bad = ('extra_draws', log[i])
    return dur, delay, bad


def run_markov_builder(case, res, via_get_infected=False):
    import EoN
    import EoN.simulation as sim
    G, lab = gen.build_graph(case['graph'])
    nodes = list(G)
    nbrs = {u: list(G.neighbors(u)) for u in nodes}
    tau, gamma = case['tau'], case['gamma']
    I0 = [lab(i) for i in case['I0']]
    R0 = [lab(i) for i in case['R0']]
    captured = []
    orig = sim.directed_percolate_network

    def tap(*a, **k):
        H = orig(*a, **k)
        captured.append(H.copy())
        return H
    try:
        with rngprobe.monitor(seed=case['seed']) as px:
            if via_get_infected:
                sim.directed_percolate_network = tap
                try:
                    got = EoN.get_infected_nodes(G, tau, gamma, initial_infecteds=list(I0) if len(I0) > 1 or case['seed'] % 2 else I0[0],
                                                 initial_recovereds=((R0[0] if (len(R0) == 1 and case['seed'] % 3 == 0) else list(R0)) if R0 else None))
                finally:
                    sim.directed_percolate_network = orig
            else:
                H = EoN.directed_percolate_network(G, tau, gamma, weights=case['full'])
    except Exception as e:
        viol(res, '%s|exception:%s' % ('get_infected_nodes' if via_get_infected else 'directed_percolate_network', simcase.exc_key(e)), {'err': repr(e), 'tau': tau, 'gamma': gamma})
        return
    name = 'get_infected_nodes' if via_get_infected else 'directed_percolate_network'
    if via_get_infected:
        if len(captured) != 1:
            if not captured and gamma == 0 and tau > 0 and not px.log:
                # no percolated graph was built and nothing was drawn: legitimate only where the answer is deterministic (infinite
                # durations, finite delays: every arc is kept), so judge the returned set directly
                exp = perc.reach([u for u in nodes if u not in R0], {(u, v): 0.0 for u in nodes for v in nbrs[u] if u not in R0 and v not in R0}, I0)
                bump(res, 'get_infected_checked')
                if set(got) != exp:
                    viol(res, 'get_infected_nodes|out_component_minus_recovered', {'got': sorted(map(repr, got))[:8], 'expected': sorted(map(repr, exp))[:8], 'R0': [repr(x) for x in R0]})
                return
            res['inconclusive'] = 'get_infected_nodes no longer builds its graph through directed_percolate_network'
            return
        H = captured[0]
    dur, delay, bad = _markov_tables_from_log(G, px.log, tau, gamma)
    if bad:
        viol(res, 'directed_percolate_network|draw_%s' % bad[0], {'found': bad[1], 'tau': tau, 'gamma': gamma})
        return
    bump(res, 'markov_builder_draws_checked', len(px.log) + 1)
    arcs = perc.kept_arcs(nodes, nbrs, dur, delay)
    if set(H.nodes()) != set(nodes) or set(H.edges()) != set(arcs):
        viol(res, 'directed_percolate_network|arcs_iff_delay_le_duration', {'H_edges': len(H.edges()), 'oracle_arcs': len(arcs), 'tau': tau, 'gamma': gamma})
        return
    if not via_get_infected and case['full']:
        if any(H.nodes[u].get('duration') != dur[u] for u in nodes) or any(H.edges[e].get('delay_to_infection') != arcs[e] for e in arcs):
            viol(res, 'directed_percolate_network|attributes', {})
    if via_get_infected:
        live = {a: w for a, w in arcs.items() if a[0] not in R0 and a[1] not in R0}
        exp = perc.reach([u for u in nodes if u not in R0], live, I0)
        bump(res, 'get_infected_checked')
        if set(got) != exp:
            viol(res, 'get_infected_nodes|out_component_minus_recovered', {'got': sorted(map(repr, got))[:8], 'expected': sorted(map(repr, exp))[:8], 'R0': [repr(x) for x in R0]})
    if arcs:
        res['nontrivial'] = '%s:%s:%s%s' % (name, gen.iso_key(case['graph']), 't0' if tau == 0 else 't+', 'g0' if gamma == 0 else 'g+')
        res['sample'] = {'kind': name, 'graph': case['graph'], 'tau': tau, 'gamma': gamma, 'arcs_kept': len(arcs)}


def run_fast_sir(case, res):
    """fast_SIR on its weighted / zero-rate path: the returned times and infectors must be the first-passage percolation (from tmin) of
    the very exponential draws the run made (step-law monitor of C01, used here for the percolation clause)"""
    import EoN
    from .. import markov
    G, lab, tw, rw, I0, R0 = simcase.build(case)
    tmax = float('inf') if case['tmax'] == 'inf' else case['tmax']
    fails, counters = [], {}
    try:
        with rngprobe.monitor(seed=case['seed']) as px:
            sim = EoN.fast_SIR(G, case['tau'], case['gamma'], initial_infecteds=list(I0), initial_recovereds=list(R0), tmin=case['tmin'], tmax=tmax,
                               transmission_weight=tw, recovery_weight=rw, return_full_data=True)
        markov.e2_fast_sir(G, case['tau'], case['gamma'], tw, rw, I0, R0, case['tmin'], tmax, px.log, sim, fails, counters)
    except markov.ParseError as e:
        res['inconclusive'] = 'draw protocol of fast_SIR not recognised: %s' % e
        return
    except Exception as e:
        viol(res, 'fast_SIR|weighted_path|exception:%s' % simcase.exc_key(e), {'err': repr(e)})
        return
    bump(res, 'fast_SIR_weighted_path_runs')
    if G.is_directed():
        bump(res, 'fast_SIR_weighted_path_runs_on_directed_networks')
    t = list(sim.t())
    if t and t[0] != case['tmin']:
        fails.append(('first_time_is_tmin', {'t0': t[0], 'tmin': case['tmin']}))
    for pred, det in fails[:3]:
        viol(res, 'fast_SIR|%s|%s' % (case['wm'], pred), det)
    if len(sim.transmissions()) > len(I0):
        res['nontrivial'] = 'fast_sir:%s:%s:%s' % (gen.iso_key(case['graph']), case['wm'], case['tmin'])
        res['sample'] = {'kind': 'fast_sir', 'graph': case['graph'], 'tau': case['tau'], 'gamma': case['gamma'], 'tmin': case['tmin'], 'infections': len(sim.transmissions())}


def run_case(case):
    res = new_result()
    k = case['kind']
    if k == 'fast_sir':
        run_fast_sir(case, res)
        return res
    if k == 'sim':
        run_sim(case, res)
    elif k == 'builder':
        run_builder(case, res)
    elif k == 'markov_builder':
        run_markov_builder(case, res)
    else:
        run_markov_builder(case, res, via_get_infected=True)
    return res
