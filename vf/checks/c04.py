"""C04 - trajectories are well-formed: icontract post-conditions on the real simulator functions (both return modes),
driven by boundary + random workloads."""
import random
from .. import gen, simreg, simcase, contracts
from ..runner import new_result, viol, bump, case_seed

PID = 'C04'
LEVEL = 'exploration'
RULE = ('cases: every simulator (12 entry points) x {arrays, full data} x seeded random/boundary inputs (graphs n<=14 incl. single '
        'node; plus one network of 10^4 (thorough: up to 7x10^4) nodes per simulator; '
        'node, edgeless, isolated nodes; rates/p incl. 0 and 1; weights incl. 0; tmin in {0,-3,2.5,1}; finite/infinite/tiny horizons; '
        'initial sets in every container form, with initially recovered nodes).  Non-trivial = the returned trajectory has >=2 rows; '
        'distinct = (simulator, mode, graph iso key, #rows bucket).')
ASSUMPTIONS = ['inputs inside the documented domain (tmin<tmax, disjoint existing initial nodes, non-negative rates)',
               'row-difference predicate applied to full-data summaries only when their times are distinct (summary() keys rows by time)']
BUDGET = {'quick': 150, 'thorough': 1200}
CHUNK = {'quick': 40, 'thorough': 200}
START_PREDS = {'row0_counts', 'statuses_at_tmin', 'node_status_at_tmin', 'recovered_history', 'recovered_node_infected'}
REQUIRED = ['big_network_runs', 'contract_evaluations', 'row_moves_checked', 'extinction_checked', 'repo_sweep_tests_under_contracts'] + ['calls:' + s for s in simreg.ALL_SIMS]
MINE = lambda pred: pred not in START_PREDS


def gen_cases(tier, seed):
    n = {'quick': 18000, 'thorough': 600000}[tier]
    out = []
    for k in range(n):
        cs = case_seed(seed, PID, k)
        r = random.Random(cs)
        sim = simreg.ALL_SIMS[k % len(simreg.ALL_SIMS)]
        c = simreg.random_sim_case(r, sim)
        c['full'] = (k // len(simreg.ALL_SIMS)) % 2 == 1
        if sim not in simreg.GENERIC_SIMS and r.random() < 0.12:
            # initial condition through rho (the documented alternative to initial_infecteds)
            c['rho'] = r.choice([0.1, 0.3, 0.5, 0.8])
            c['I0'] = None
            c['R0'] = []
            c.pop('R0_explicit_empty', None)
        g0 = c['graph']
        if sim in ('Gillespie_SIS', 'Gillespie_SIR', 'fast_SIS', 'fast_SIR') and not g0.get('directed') and not g0.get('big') and g0['n'] >= 2 and r.random() < 0.2:
            # self-loops (nx.Graph(nx.configuration_model(...)) keeps them; the library's own examples run on such graphs): a node is not its
            # own contact, trajectories stay well-formed
            g0 = dict(g0)
            loops = [[i, i] for i in r.sample(range(g0['n']), r.randint(1, 2))]
            g0['edges'] = [list(e) for e in g0['edges']] + loops
            if g0.get('ew'):
                g0['ew'] = {a_: list(ws) + [1.0] * len(loops) for a_, ws in g0['ew'].items()}
            c['graph'] = g0
            c.pop('prehistory', None)
            c['selfloops'] = True
        if sim == 'Gillespie_simple_contagion' and r.random() < 0.15:
            c['alias'] = 'Gillespie_Arbitrary'      # the older public name of the same simulator
        if sim == 'Gillespie_simple_contagion' and r.random() < 0.3 and not c['full']:
            ks = len(c['spec']['statuses'])
            c['return_idx'] = sorted(r.sample(range(ks), r.randint(1, ks)))
        out.append(c)
    # size-gated code paths: every simulator also on a few large networks (10^4 .. 10^5 nodes)
    for j, sim in enumerate(simreg.ALL_SIMS * (1 if tier == 'quick' else 3)):
        cs = case_seed(seed, PID + 'big', j)
        r = random.Random(cs)
        c = simreg.random_sim_case(r, sim)
        N = [10400, 24000, 70000][j // len(simreg.ALL_SIMS)] + r.randrange(200)
        c['graph'] = {'n': N, 'edges': [], 'big': {'k': r.choice([2, 3]), 'seed': cs}, 'labels': r.choice(['int', 'offset', 'str', 'neg'])}
        for key in ('prehistory', 'ic_extra', 'rho', 'R0_explicit_empty', 'sim_kwargs', 'stay'):
            c.pop(key, None)
        c['wm'] = 'none'
        c['big'] = True
        c['full'] = (j % 2 == 1)
        c['tmin'] = r.choice([0, -3, 2.5])
        if sim in simreg.DISCRETE:
            c['tmax'] = c['tmin'] + r.choice([3, 6])
        elif sim in simreg.SIR_SIMS:
            c['tmax'] = r.choice(['inf', c['tmin'] + 2.0])
        else:
            c['tmax'] = c['tmin'] + r.choice([0.5, 1.5])
        if sim not in simreg.GENERIC_SIMS:
            c['I0'] = sorted(r.sample(range(N), r.randint(1, 30)))
            c['I0_form'] = 'list'
            rest = [i for i in range(0, N, 7) if i not in set(c['I0'])]
            c['R0'] = sorted(r.sample(rest, r.randint(0, 40))) if sim in simreg.SIR_SIMS else []
            c['R0_form'] = 'list'
        else:
            ks = len(c['spec']['statuses']) if sim == 'Gillespie_simple_contagion' else 2
            c['IC'] = [r.randrange(ks) if r.random() < 0.1 else 0 for _ in range(N)]
            if sim == 'Gillespie_simple_contagion':
                c['weight_form'] = None
                c.pop('spont_boost', None)
                c.pop('nbr_boost', None)
        out.append(c)
    # the repository's own sweep tests (2500-node grid, tuple labels) with the contracts switched on
    for name in SWEEP_TESTS:
        out.append({'kind': 'repo_sweep', 'test': name, 'sim': 'repo_sweep', 'seed': case_seed(seed, PID, name)})
    return out


SWEEP_TESTS = ['test_Gillespie_SIS_type', 'test_Gillespie_SIS_sweep_gamma', 'test_Gillespie_SIR_sweep_gamma', 'test_fast_SIS_sweep_gamma', 'test_fast_SIR_sweep_gamma',
               'test_Gillespie_SIS_sweep_tau', 'test_Gillespie_SIR_sweep_tau', 'test_fast_SIS_sweep_tau', 'test_fast_SIR_sweep_tau', 'test_basic_discrete_SIS_sweep_p',
               'test_basic_discrete_SIR_sweep_p']


def run_repo_sweep(case, res):
    import importlib, io, contextlib
    contracts.install()
    contracts.drain()
    contracts.CONTEXT.update({'complex_moves': None, 'statuses_cover_all': True, 'positive_recovery': None, 'distinct_times': True, 'R0_expected': None})
    simcase.seed_all(case['seed'])
    before = sum(contracts.EVALS.values())
    try:
        mod = importlib.import_module('EoN.tests.test_sim_sweep_parameters')
        with contextlib.redirect_stdout(io.StringIO()):
            getattr(mod.TestSimSweepParameters(), case['test'])()
    except Exception as e:
        viol(res, 'repo_sweep|%s|exception:%s' % (case['test'], simcase.exc_key(e)), {'err': repr(e)[:200]})
        contracts.drain()
        return
    n = sum(contracts.EVALS.values()) - before
    bump(res, 'contract_evaluations', n)
    bump(res, 'repo_sweep_tests_under_contracts')
    for fname, mode, pred, detail in contracts.drain():
        if pred == 'monitor_error':
            raise RuntimeError('contract monitor error: %r' % (detail,))
        if MINE(pred):
            d = dict(detail)
            d['test'] = case['test']
            viol(res, '%s|%s|%s' % (fname, mode, pred), d)
    if n:
        res['nontrivial'] = 'repo_sweep:' + case['test']
        res['sample'] = {'kind': 'repo_sweep', 'test': case['test'], 'contract_evaluations': n}


def input_class(case):
    cls = []
    if case.get('R0'):
        cls.append('R0')
    return '+'.join(cls) or 'plain'


def run_monitored(case, res, mine, keyfmt=None):
    """shared by C04 / C05: run the call with contracts installed and report the predicates selected by `mine`."""
    call = simreg.build_call(case)
    contracts.install()
    contracts.drain()
    contracts.CONTEXT['complex_moves'] = getattr(call, 'moves', None)
    contracts.CONTEXT['statuses_cover_all'] = (call.model != 'generic') or (len(call.return_statuses) == len(call.statuses))
    contracts.CONTEXT['positive_recovery'] = None
    contracts.CONTEXT['R0_expected'] = list(call.R0) if call.model == 'SIR' else None
    contracts.CONTEXT['R0_expected_for'] = call.sim
    # simultaneous events are certain with constant durations; summary() merges rows of equal time by design
    contracts.CONTEXT['distinct_times'] = not (call.sim in ('fast_nonMarkov_SIR', 'fast_nonMarkov_SIS') and case['rule']['kind'] in ('const', 'lattice'))
    if call.sim == 'fast_nonMarkov_SIR':
        contracts.CONTEXT['positive_recovery'] = not (case['rule']['kind'] == 'exp' and case['rule']['gamma'] <= 0)
    simcase.seed_all(case['seed'])
    before = sum(contracts.EVALS.values())
    rm0, ex0 = contracts.EVALS['row_moves'], contracts.EVALS['extinction']
    try:
        import EoN, io, contextlib
        with contextlib.redirect_stdout(io.StringIO()):
            out = getattr(EoN, case.get('alias') or call.sim)(*call.args, **call.kw)
    except Exception as e:
        contracts.drain()
        return call, None, e
    bump(res, 'contract_evaluations', sum(contracts.EVALS.values()) - before)
    bump(res, 'row_moves_checked', contracts.EVALS['row_moves'] - rm0)
    bump(res, 'extinction_checked', contracts.EVALS['extinction'] - ex0)
    bump(res, 'calls:' + call.sim)
    for fname, mode, pred, detail in contracts.drain():
        if pred == 'monitor_error':
            raise RuntimeError('contract monitor error: %r' % (detail,))
        if mine(pred):
            d = dict(detail)
            d['called'] = call.sim
            viol(res, '%s|%s|%s' % (fname, mode, pred), d)
    return call, out, None


def run_case(case):
    res = new_result()
    if case.get('kind') == 'repo_sweep':
        run_repo_sweep(case, res)
        return res
    call, out, err = run_monitored(case, res, MINE)
    if err is not None:
        viol(res, '%s|%s|exception:%s' % (case.get('alias') or case['sim'], ('full' if case.get('full') else 'arrays') + ('+R0' if case.get('R0') else ''),
                                          simcase.exc_key(err)), {'err': repr(err)})
        return res
    if case.get('big'):
        bump(res, 'big_network_runs')
    if call.full and hasattr(out, 't'):
        rows = len(out.t())
    else:
        rows = len(out[0])
    if rows >= 2:
        res['nontrivial'] = '%s:%s:%s:%d' % (case['sim'], 'full' if call.full else 'arr', gen.iso_key(case['graph']), min(rows, 64) // 8)
        res['sample'] = {'sim': case['sim'], 'full': call.full, 'graph': case['graph'], 'tmin': case['tmin'], 'tmax': case['tmax'], 'rows': rows,
                         'I0': case.get('I0'), 'R0': case.get('R0')}
    return res
