"""C16 - weighted event selection stays proportional to weight after any history.

Model-based histories on the real _ListDict_ (weighted and unweighted): random and adversarial operation sequences with a shadow
dict; after each block the *exact* selection law is extracted by driving the RNG (every candidate is proposed and rejected while
rejection has positive probability, so all accept thresholds of one selection are observed) and compared with weight/sum."""
import random, math
from .. import rngprobe
from ..runner import new_result, viol, bump, setmax, case_seed

PID = 'C16'
LEVEL = 'exploration'
RULE = ('cases: seeded operation histories (insert / replace / non-negative increment incl. 0 / remove / random_removal / select) of 20-400 (a share: 5000-20000) operations on '
        'up to 200 candidates; weight families: equal, dyadic, non-dyadic, 1e-12..1e12, with zeros; adversarial patterns: repeatedly remove / replace the '
        'heaviest, drain to empty and refill, all-equal weights.  After every block the full selection law is extracted.  Non-trivial = law extracted on '
        '>=2 candidates with distinct weights at least once; distinct = (pattern, weight family, size bucket, mode).')
ASSUMPTIONS = ['a rejection bound that is stale-high but not above the largest weight present since the list was last empty is correct (only slower) and is not flagged; stale-low is, and so is a bound that nothing present since the last empty state explains (bounded progress)']
BUDGET = {'quick': 150, 'thorough': 1200}
CHUNK = {'quick': 20, 'thorough': 100}
REQUIRED = ['bounds_checked_against_history_since_last_empty', 'endurance_runs', 'long_history_totals_checked', 'dominant_candidate_removals', 'laws_extracted', 'candidates_law_checked', 'totals_checked', 'heaviest_changes', 'zero_weight_candidates_seen', 'real_selections_checked']
PATTERNS = ['random', 'heaviest_churn', 'drain_refill', 'equal', 'replace_heavy', 'zero_mix', 'dominant']
FAMILIES = ['dyadic', 'nondyadic', 'wide', 'equal', 'withzero', 'mixedint', 'tiny']


def gen_cases(tier, seed):
    n = {'quick': 6000, 'thorough': 200000}[tier]
    out = []
    for k in range(n):
        cs = case_seed(seed, PID, k)
        r = random.Random(cs)
        out.append({'pattern': PATTERNS[k % len(PATTERNS)], 'family': r.choice(FAMILIES), 'weighted': (k % 11 != 10), 'size': r.choice([3, 8, 20, 60, 200]),
                    'nops': r.choice([20, 60, 150, 400]), 'seed': cs})
        if k % 20 == 7:
            # a long run of consecutive rejections has positive probability whenever some candidate is lighter than the heaviest one
            out[-1]['endurance'] = r.choice([150, 1500, 15000] if tier == 'quick' else [150, 1500, 15000, 150000, 1200000])
        if k % 60 == 13:
            # long histories (one simulation of a few thousand events keeps a single candidate list alive for that long)
            out[-1].update({'nops': r.choice([5000, 9000, 20000]), 'size': r.choice([8, 20, 60]), 'pattern': r.choice(['random', 'heaviest_churn', 'replace_heavy', 'zero_mix'])})
    # size-gated bookkeeping: a few histories with more than 1e5 weight updates on one sampler
    for j in range(6 if tier == 'quick' else 16):
        cs = case_seed(seed, PID + 'verylong', j)
        r = random.Random(cs)
        out.append({'pattern': r.choice(['random', 'heaviest_churn', 'replace_heavy']), 'family': r.choice(['dyadic', 'nondyadic', 'mixedint']), 'weighted': True,
                    'size': r.choice([8, 20]), 'nops': 230000, 'seed': cs})
    return out


def _w(r, fam):
    if fam == 'dyadic':
        return r.choice([0.25, 0.5, 1.0, 2.0, 4.0, 8.0])
    if fam == 'nondyadic':
        return r.choice([0.1, 0.2, 0.3, 0.7, 1.1, 2.3, 3.7])
    if fam == 'wide':
        return 10 ** r.uniform(-12, 12)
    if fam == 'mixedint':
        return r.choice([1, 2, 3, 1, 0.25, 0.5, 1.7, 2.5])      # Python ints (contact counts, G.add_edge(u, v, w=1)) next to floats
    if fam == 'equal':
        return 1.7
    if fam == 'tiny':
        return r.choice([0.1, 0.2, 0.3, 0.7, 1.1, 2.3, 3.7]) * 1e-14      # the same weights in another unit: totals of order 1e-13 are totals, not residue
    return r.choice([0.0, 0.0, 0.5, 1.0, 1.9])


class LawDriver(rngprobe.Driver):
    """proposes candidates start, start+1, ... in turn and rejects each one while rejection has positive probability; once all
    have been proposed it proposes the candidate with the largest observed threshold and accepts"""
    def __init__(self, start):
        rngprobe.Driver.__init__(self, (), max_decisions=100000)
        self.next = start
        self.offered = {}        # index -> threshold (only candidates whose accept test was a genuine decision)
        self.n = None
        self.current = None
        self.last_seq = start - 1

    def decide(self, kind, probs, info=None):
        if len(self.decisions) >= self.max_decisions:
            raise rngprobe.DepthExceeded()
        self.decisions.append(None)
        if kind == 'choice':
            self.n = len(probs)
            if self.next < self.n:
                self.current = self.next
                self.last_seq = self.next
                self.next += 1
            else:
                # everything has been proposed: now accept whatever can be accepted (round robin; some candidate has positive weight)
                self.current = max(self.offered, key=lambda i: self.offered[i]) if self.offered else (self.next % self.n)
                self.next += 1
                self.finish = True
            return self.current
        if kind == 'cmp':
            if self.current is None:      # single candidate: the proxy does not ask for a choice among one
                self.last_seq = 0
                return 0
            self.offered[self.current] = info['thr']
            if getattr(self, 'finish', False):
                return 0
            return 1
        return 0


class EnduranceDriver(rngprobe.Driver):
    """proposes one light candidate `k` times in a row and rejects it each time (an event of positive probability, however small),
    then proposes the heaviest candidate, which is accepted."""
    def __init__(self, light, heavy, k):
        rngprobe.Driver.__init__(self, (), max_decisions=4 * k + 100)
        self.light, self.heavy, self.k = light, heavy, k
        self.proposals = 0
        self.rejections = 0
        self.decisions_n = 0

    def decide(self, kind, probs, info=None):
        self.decisions_n += 1
        if self.decisions_n > self.max_decisions:
            raise rngprobe.DepthExceeded()
        if kind == 'choice':
            self.proposals += 1
            return self.light if self.proposals <= self.k else self.heavy
        if kind == 'cmp':
            if self.proposals <= self.k:
                self.rejections += 1
                return 1          # reject
            return 0
        return 0


def endurance(L, shadow, k, res, tag):
    """after k consecutive rejections the sampler must still be sampling: the item it finally returns is one it accepted."""
    import EoN.simulation as sim
    pos = [x for x in shadow if shadow[x] > 0]
    if len(pos) < 2:
        return
    wmax = max(shadow[x] for x in pos)
    light = min(pos, key=lambda x: shadow[x])
    heavy = max(pos, key=lambda x: shadow[x])
    if not (shadow[light] < 0.999 * wmax):
        return
    # population order as the sampler sees it
    d0 = LawDriver(0)
    px0 = rngprobe.RngProxy(driver=d0, copy_pop='ref')
    px0.min_prob = 0.0
    saved = sim.random
    sim.random = px0
    try:
        L.choose_random()
    finally:
        sim.random = saved
    ch = [e for e in px0.log if e[0] == 'choice']
    if not ch:
        return
    pop = list(ch[0][1])
    if light not in pop or heavy not in pop:
        return
    # A sampler that gives up and hands back the candidate it has just rejected does so deterministically; one that switches to another
    # exact algorithm on a generator the proxy does not see returns `light` only with probability w_light/sum.  Repeat until that
    # coincidence is below 1e-9 (or skip the case when that would take more than 12 repetitions).
    frac = shadow[light] / sum(shadow[x] for x in pos)
    reps = 1 if frac <= 1e-9 else int(math.ceil(9.0 / -math.log10(frac)))
    if reps > 12:
        return
    bump(res, 'endurance_runs')
    for rep in range(reps):
        d = EnduranceDriver(pop.index(light), pop.index(heavy), k)
        px = rngprobe.RngProxy(driver=d, copy_pop='ref')
        px.min_prob = 0.0
        px.log = _Tail()
        sim.random = px
        try:
            got = L.choose_random()
        finally:
            sim.random = saved
        setmax(res, 'max_consecutive_rejections_driven', d.rejections)
        if px.log.other_after_last_choice:
            bump(res, 'alternative_sampling_path_seen')        # it consulted further monitored randomness: another algorithm, judged by the law extraction / real selections
            return
        if d.rejections >= k and got == heavy:
            return                                              # kept sampling and returned what it accepted
        if got != light:
            bump(res, 'alternative_sampling_path_seen')
            return
    viol(res, tag + '|returns_the_candidate_it_has_just_rejected', {'consecutive_rejections_before_giving_up': d.rejections, 'returned': repr(got), 'weight_of_returned': shadow.get(got),
                                                                  'max_weight': wmax, 'repetitions': reps})


class _Tail(object):
    """constant-memory stand-in for the draw log: remembers only whether anything other than propose/accept draws came after the last proposal"""
    def __init__(self):
        self.other_after_last_choice = False
        self.n = 0

    def append(self, e):
        self.n += 1
        if e[0] == 'choice':
            self.other_after_last_choice = False
            self._cmp_seen = False
        elif e[0] in ('cmp', 'uniform') and not getattr(self, '_cmp_seen', False):
            if e[0] == 'cmp':
                self._cmp_seen = True
        else:
            self.other_after_last_choice = True

    def __iter__(self):
        return iter(())

    def __len__(self):
        return self.n


_LAST = {'direct': False}


def extract_law(L, weighted, shadow, res, tag):
    """returns False on violation / inconclusive"""
    import EoN.simulation as sim
    _LAST['direct'] = False
    if not shadow:
        return {}
    thr = {}
    start = 0
    pop = None
    n = None
    while n is None or start < n:
        d = LawDriver(start)
        px = rngprobe.RngProxy(driver=d, copy_pop='ref')
        px.min_prob = 0.0      # thresholds such as 1e-21 are legitimate here (wide weight ranges), not floating-point dust
        saved = sim.random
        sim.random = px
        try:
            L.choose_random()
        finally:
            sim.random = saved
        ch = [e for e in px.log if e[0] == 'choice']
        dr = [e for e in px.log if e[0] == 'choices']
        if dr and not ch:
            # one direct categorical draw (random.choices): the log entry carries the law
            bump(res, 'direct_draws_seen')
            _LAST['direct'] = True
            pop = tuple(dr[0][1])
            n = len(pop)
            thr = {}
            for x, p in zip(pop, dr[0][2]):
                thr[x] = thr.get(x, 0.0) + p
            if not weighted and len(set(pop)) == len(pop) and any(abs(thr[x] - 1.0 / n) > 1e-12 for x in pop):
                viol(res, tag + '|selection_probability_uniform', {'P_selected': [thr[x] for x in pop][:6]})
                return False
            break
        if not ch:
            res['inconclusive'] = 'choose_random made no observable choice'
            return False
        pop = tuple(ch[0][1])
        n = len(pop)
        if not weighted:
            break
        # each proposal is followed by its accept test; a proposal returned without any test was accepted unconditionally (threshold 1),
        # e.g. a shortcut for the case that all candidates carry the maximum weight
        pairs = []
        for e in px.log:
            if e[0] == 'choice':
                pairs.append([e, None])
            elif e[0] == 'cmp' and pairs and pairs[-1][1] is None:
                pairs[-1][1] = e
            elif e[0] == 'cmp':
                res['inconclusive'] = 'selection protocol not recognised (two accept tests for one proposal)'
                return False
        if any(m is None for c, m in pairs[:-1]):
            res['inconclusive'] = 'selection protocol not recognised (a proposal without accept test was not returned)'
            return False
        for c, m in pairs:
            thr[c[1][c[2]]] = m[2] if m is not None else 1.0
        if pairs[-1][1] is None:
            bump(res, 'unconditional_acceptances_seen')
            d.last_seq = max(d.last_seq, start)
        if n == 1:
            break
        start = d.last_seq + 1
    bump(res, 'laws_extracted')
    # population: every candidate with positive weight exactly once; nothing foreign
    if len(set(pop)) != len(pop):
        viol(res, tag + '|candidate_listed_twice', {'population': [repr(x) for x in pop][:8]})
        return False
    missing = [x for x in shadow if x not in set(pop) and (shadow[x] > 0 or not weighted)]
    extra = [x for x in pop if x not in shadow]
    if missing or extra:
        viol(res, tag + '|candidate_set', {'missing': [repr(x) for x in missing][:4], 'extra': [repr(x) for x in extra][:4]})
        return False
    if not weighted:
        bump(res, 'candidates_law_checked', len(pop))
        return {x: 1.0 for x in pop}
    if len(thr) < len(pop):
        # a candidate with threshold >= 1 ends the loop early; remaining thresholds are obtained on the next passes. If still incomplete: inconclusive
        res['inconclusive'] = 'could not observe all accept thresholds (%d of %d)' % (len(thr), len(pop))
        return False
    a = {x: min(1.0, max(0.0, thr[x])) for x in pop}
    sa = sum(a.values())
    sw = sum(shadow[x] for x in pop)
    if sw == 0:
        return a
    if sa <= 0:
        viol(res, tag + '|no_candidate_selectable', {'weights': [shadow[x] for x in pop][:6]})
        return False
    worst = 0.0
    for x in pop:
        bump(res, 'candidates_law_checked')
        pa, pw = a[x] / sa, shadow[x] / sw
        if shadow[x] == 0:
            bump(res, 'zero_weight_candidates_seen')
            if a[x] > 0:
                viol(res, tag + '|zero_weight_candidate_selectable', {'item': repr(x), 'accept_threshold': thr[x]})
                return False
        worst = max(worst, abs(pa - pw))
        if abs(pa - pw) > 1e-12 + 1e-9 * pw:
            viol(res, tag + '|selection_probability_proportional_to_weight', {'item': repr(x), 'weight': shadow[x], 'P_selected': pa, 'weight_over_sum': pw,
                                                                            'accept_threshold': thr[x], 'max_weight_in_set': max(shadow.values())})
            return False
    setmax(res, 'max_abs_law_error', worst)
    return a


def run_case(case):
    import EoN.simulation as sim
    res = new_result()
    r = random.Random(case['seed'])
    weighted = case['weighted']
    fam = case['family'] if weighted else 'equal'
    if case['pattern'] == 'dominant' and fam == 'wide':
        fam = 'nondyadic'       # two scales only: the running total is not claimed exact when three widely separated scales are live at once
    pat = case['pattern']
    L = sim._ListDict_(weighted=weighted)
    shadow = {}
    acc = 0.0          # accumulated magnitude of all increments (rounding scale of the running total)
    tag = '_ListDict_|%s|%s' % ('weighted' if weighted else 'unweighted', pat)
    universe = [('n', i) if i % 2 else i for i in range(case['size'])]
    distinct_law = False
    hist_max = 0.0
    endured = False
    heaviest_before = None

    def op_insert(x, w):
        nonlocal acc
        if weighted:
            if x in shadow:
                acc += shadow[x]
            L.insert(x, weight=w)
            shadow.pop(x, None)
            if w != 0:
                shadow[x] = w
                acc += w
        else:
            L.insert(x)
            shadow[x] = 1.0

    def op_update(x, inc):
        nonlocal acc
        if weighted:
            L.update(x, weight_increment=inc)
            shadow[x] = shadow.get(x, 0.0) + inc
            acc += inc
        else:
            L.update(x)
            shadow[x] = 1.0

    def op_remove(x):
        nonlocal acc
        L.remove(x)
        acc += shadow.pop(x)

    try:
        for step in range(case['nops']):
            present = list(shadow)
            u = r.random()
            if pat == 'dominant' and weighted and present and u < 0.25 and sum(shadow.values()) > 0:
                # one candidate that dominates the total by 9-15 orders of magnitude comes and goes (e.g. a hub with a huge rate):
                # right after it has left, the clock total must again equal the sum of the light weights to rounding (1e-6 relative)
                x = ('dom', step)
                W = sum(shadow.values()) * 10 ** r.uniform(9, 15)
                op_insert(x, W)
                op_remove(x)
                bump(res, 'dominant_candidate_removals')
                sw = sum(shadow.values())
                tw = L.total_weight()
                if abs(tw - sw) > 1e-6 * sw:
                    viol(res, tag + '|total_weight_after_dominant_candidate_left', {'total_weight': tw, 'sum_of_weights': sw, 'dominant_weight': W})
                    return res
            elif pat == 'heaviest_churn' and present and u < 0.5:
                h = max(present, key=lambda x: shadow[x])
                if r.random() < 0.5:
                    op_remove(h)
                else:
                    op_insert(h, _w(r, fam) * r.choice([0.01, 1, 100]))
                bump(res, 'heaviest_changes')
            elif pat == 'replace_heavy' and present and u < 0.4:
                h = max(present, key=lambda x: shadow[x])
                op_insert(h, shadow[h] * r.choice([0.5, 0.999, 2.0]) if shadow[h] > 0 else _w(r, fam))
                bump(res, 'heaviest_changes')
            elif pat == 'drain_refill' and present and (step // 25) % 2 == 1:
                op_remove(r.choice(present))
            elif pat == 'zero_mix' and u < 0.3:
                x = r.choice(universe)
                if weighted:
                    op_update(x, 0.0)
                else:
                    op_update(x, None)
            elif u < 0.35 or not present:
                op_insert(r.choice(universe), _w(r, fam) if pat != 'equal' else 2.5)
            elif u < 0.6:
                x = r.choice(universe)
                op_update(x, (_w(r, fam) if pat != 'equal' else 2.5) if weighted else None)
            elif u < 0.8:
                op_remove(r.choice(present))
            else:
                pass
            # the largest weight present at any time since the list was last empty: no rejection bound needs to be higher than that
            if len(L) == 0:
                hist_max = 0.0
            elif shadow:
                hist_max = max(hist_max, max(shadow.values()))
            # --- quiescent point: invariants
            if step % 10 == 9 or step == case['nops'] - 1:
                sw = sum(shadow.values()) if weighted else float(len(shadow))
                tw = L.total_weight()
                bump(res, 'totals_checked')
                tol = 1e-9 * max(acc, 1e-300) if weighted else 0
                if abs(tw - sw) > tol:
                    viol(res, tag + '|total_weight_equals_sum', {'total_weight': tw, 'sum_of_weights': sw, 'accumulated_magnitude': acc})
                    return res
                if len(L) != len([x for x in shadow]) and not (weighted and len(L) == len(shadow)):
                    viol(res, tag + '|length', {'len': len(L), 'candidates': len(shadow)})
                    return res
                if any((x in L) != (x in shadow) for x in universe):
                    viol(res, tag + '|membership', {})
                    return res
                if case['nops'] > 1000:
                    bump(res, 'long_history_totals_checked')
                if (sw > 0 or not weighted) and (case['nops'] <= 1000 or step % 500 == 499 or step == case['nops'] - 1):
                    h = max(shadow, key=lambda x: shadow[x]) if shadow else None
                    if heaviest_before is not None and h != heaviest_before:
                        bump(res, 'heaviest_changes')
                    heaviest_before = h
                    acc_p = extract_law(L, weighted, shadow, res, tag)
                    if acc_p is False:
                        return res
                    if weighted and acc_p and hist_max > 0 and not _LAST['direct'] and pat != 'dominant':
                        # bounded progress: the accept probability of x is w(x)/bound; a bound above every weight seen since the list
                        # was last empty is explained by nothing and can starve the selection (w/bound arbitrarily small)
                        bump(res, 'bounds_checked_against_history_since_last_empty')
                        low = [x for x in acc_p if shadow.get(x, 0) > 0 and acc_p[x] < shadow[x] / hist_max * (1 - 1e-9)]
                        if low:
                            x = low[0]
                            viol(res, tag + '|rejection_bound_above_every_weight_since_the_list_was_last_empty',
                                 {'item': repr(x), 'weight': shadow[x], 'accept_probability': acc_p[x], 'largest_weight_since_last_empty': hist_max})
                            return res
                    # real selections through the real RNG, only where rejection sampling is not astronomically slow
                    # (a stale-high rejection bound is legitimate, so the harness must not wait on it)
                    if acc_p and sum(acc_p.values()) / len(acc_p) >= 1e-3:
                        for rep in range(3):
                            random.seed(case['seed'] + 31 * step + rep)
                            x = L.choose_random()
                            bump(res, 'real_selections_checked')
                            if x not in shadow or (weighted and shadow[x] == 0):
                                viol(res, tag + '|choose_random_returns_positive_weight_member', {'item': repr(x)})
                                return res
                        if r.random() < 0.5:
                            random.seed(case['seed'] - step)
                            x = L.random_removal()
                            bump(res, 'real_selections_checked')
                            if x not in shadow or (weighted and shadow[x] == 0):
                                viol(res, tag + '|random_removal_returns_positive_weight_member', {'item': repr(x)})
                                return res
                            acc += shadow.pop(x)
                            if x in L:
                                viol(res, tag + '|removed_item_still_present', {'item': repr(x)})
                                return res
                    else:
                        bump(res, 'slow_rejection_states_skipped')
                    if len({shadow[x] for x in shadow if shadow[x] > 0}) >= 2 or (not weighted and len(shadow) >= 2):
                        distinct_law = True
                    if weighted and case.get('endurance') and not endured and (step >= case['nops'] // 2):
                        endured = True
                        endurance(L, shadow, case['endurance'], res, tag)
    except rngprobe.DepthExceeded as e:
        res['inconclusive'] = 'law extraction bound: %r' % (e,)
        return res
    except Exception as e:
        import traceback
        tb = traceback.extract_tb(e.__traceback__)
        inside = any('/EoN/' in f.filename for f in tb)
        if not inside:
            raise
        viol(res, tag + '|exception:%s@%s' % (type(e).__name__, [f.name for f in tb if '/EoN/' in f.filename][-1]), {'err': repr(e), 'step': step})
        return res
    if distinct_law:
        res['nontrivial'] = '%s:%s:%d:%s' % (pat, fam, case['size'], weighted)
        res['sample'] = {'pattern': pat, 'family': fam, 'weighted': weighted, 'ops': case['nops'], 'final_candidates': len(shadow)}
    return res
