"""C17 - percolation-based probability/size estimators compute what they document (exhaustive small digraphs + random)."""
import random
import numpy as np
import networkx as nx
from .. import gen, simcase, rngprobe
from ..runner import new_result, viol, bump, case_seed
from ..oracles import percolation as perc

PID = 'C17'
LEVEL = 'exploration'
RULE = ('dir: estimate_SIR_prob_size_from_dir_perc on EVERY labelled digraph with 1..4 nodes (1+4+64+4096, exhaustive) plus random digraphs up to 40 nodes '
        '(incl. no arcs, several equally large SCCs, non-integer labels); est/dest/nm/nmt: the four estimator wrappers with the percolated graph captured '
        'and compared arc by arc with the harness table rule (xi/zeta/transmission predicate or delay<=duration tables) and the returned pair recomputed '
        'with an independent Tarjan/reachability.  Non-trivial = digraph with >=1 arc; distinct = (kind, iso key or arc mask).')
ASSUMPTIONS = ['"a largest SCC": any of several equally large components is accepted']
BUDGET = {'quick': 150, 'thorough': 1200}
CHUNK = {'quick': 100, 'thorough': 300}
REQUIRED = ['directed_contact_networks', 'nm_rule_answers_numpy', 'multigraph_inputs', 'nm_mapping_form_defaultdict', 'nm_mapping_form_extra_keys', 'dir_checked', 'tie_scc_cases', 'est_checked', 'dest_checked', 'nm_checked', 'nmt_checked', 'arcs_rule_checked']
INF = float('inf')


def gen_cases(tier, seed):
    out = []
    for n in (1, 2, 3, 4):
        for d in gen.all_digraphs(n):
            d['kind'] = 'dir'
            d['labels'] = 'int'
            out.append(d)
    nr = {'quick': 10000, 'thorough': 400000}[tier]
    kinds = ['dir', 'est', 'dest', 'nm', 'nmt']
    for k in range(nr):
        cs = case_seed(seed, PID, k)
        r = random.Random(cs)
        kind = kinds[k % len(kinds)]
        if kind == 'dir':
            d = gen.random_digraph(r, 1, 40 if k % 3 else 12)
        else:
            d = gen.random_graph(r, 1, 12)
        d['labels'] = r.choice(gen.LABEL_SCHEMES)
        if kind in ('dest', 'nmt') and d['edges'] and r.random() < 0.3:
            # a MultiGraph with parallel edges (raw configuration-model output): a contact is one neighbour, however many edges realise it
            d['multi'] = True
            d['edges'] = d['edges'] + [list(e) for e in r.sample(d['edges'], min(len(d['edges']), r.randint(1, 3)))] * r.choice([1, 2])
            d.pop('decoy', None)
        d['kind'] = kind
        d['seed'] = cs
        d['p'] = r.choice([0.0, 0.2, 0.5, 0.8, 1.0, 0.03, 0.08])
        d['tau'] = r.choice([0.0, 0.5, 2.0])
        d['gamma'] = r.choice([0.0, 1.0, 2.0])
        out.append(d)
    return out


def admissible_pairs(nodes, arcs):
    comps = perc.tarjan_scc(nodes, arcs)
    m = max(len(c) for c in comps)
    big = [c for c in comps if len(c) == m]
    N = float(len(nodes))
    prs = set()
    for c in big:
        i = perc.reach(nodes, arcs, [c[0]], reverse=True)
        o = perc.reach(nodes, arcs, [c[0]])
        prs.add((len(i) / N, len(o) / N))
    return prs, len(big)


def check_pair(res, name, got, nodes, arcs, extra=None):
    prs, nbig = admissible_pairs(nodes, arcs)
    if nbig > 1 and len(prs) > 1:
        bump(res, 'tie_scc_cases')
    try:
        pe, ar = got
    except Exception:
        viol(res, name + '|returns_pair', {'got': repr(got)})
        return False
    if not (0 <= pe <= 1 and 0 <= ar <= 1):
        viol(res, name + '|within_unit_interval', {'got': [pe, ar]})
        return False
    if not any(abs(pe - a) < 1e-12 and abs(ar - b) < 1e-12 for a, b in prs):
        d = {'got': [pe, ar], 'admissible': sorted(prs)[:4], 'nodes': len(nodes), 'arcs': sorted(map(repr, arcs))[:12]}
        d.update(extra or {})
        viol(res, name + '|in_and_out_fraction_of_largest_scc', d)
        return False
    return True


def run_case(case):
    import EoN
    import EoN.simulation as sim
    res = new_result()
    kind = case['kind']
    if kind == 'dir':
        H, lab = gen.build_graph(case, directed=True)
        nodes = list(H)
        arcs = {(u, v): 1 for u, v in H.edges()}
        try:
            got = EoN.estimate_SIR_prob_size_from_dir_perc(H)
        except Exception as e:
            viol(res, 'estimate_SIR_prob_size_from_dir_perc|exception:%s' % simcase.exc_key(e), {'err': repr(e), 'n': len(nodes), 'arcs': len(arcs)})
            return res
        bump(res, 'dir_checked')
        check_pair(res, 'estimate_SIR_prob_size_from_dir_perc', got, nodes, arcs)
        if arcs:
            res['nontrivial'] = 'dir:%d:%s' % (case['n'], gen.iso_key(case) if case['n'] > 4 else sorted(map(tuple, case['edges'])))
            res['sample'] = {'kind': 'dir', 'n': case['n'], 'arcs': case['edges'][:12], 'result': list(got)}
        return res
    # "all contact networks": a third of the rule-based variants run on a *directed* contact network (each listed edge is the arc u->v only):
    # the percolated graph may then only hold arcs along contacts of G
    dirG = kind in ('nm', 'nmt', 'dest') and case['seed'] % 3 == 0 and not case.get('multi')
    G, lab = gen.build_graph(case, directed=True) if dirG else gen.build_graph(case)
    nodes = list(G)
    nbrs = {u: list(G.neighbors(u)) for u in nodes}
    r = random.Random(case['seed'])
    captured = []
    if dirG:
        bump(res, 'directed_contact_networks')

    def capture(name):
        orig = getattr(sim, name)

        def tap(*a, **k):
            H = orig(*a, **k)
            captured.append(H.copy())
            return H
        return orig, tap
    if kind == 'est':
        orig, tap = capture('percolate_network')
        sim.percolate_network = tap
        try:
            simcase.seed_all(case['seed'])
            got = EoN.estimate_SIR_prob_size(G, case['p'])
        except Exception as e:
            viol(res, 'estimate_SIR_prob_size|exception:%s' % simcase.exc_key(e), {'err': repr(e)})
            return res
        finally:
            sim.percolate_network = orig
        if 0 < case['p'] < 0.1 and 1 <= G.number_of_edges() <= 8 and case['seed'] % 2 == 0:
            # "the bond-percolated network": in the sparse regime too every edge of G is kept with probability p (repeated seeded calls of
            # the builder on a small network, per-edge retention frequencies)
            from .c12 import edge_retention_blackbox
            bad = edge_retention_blackbox(G, case['p'], 3000, case['seed'], f=orig)
            bump(res, 'sparse_regime_retention_tests')
            if bad:
                viol(res, 'percolate_network|each_edge_kept_with_probability_p', bad)
                return res
        if len(captured) != 1:
            if not captured and case['p'] in (0, 1):
                # no percolated network was built: legitimate only where it is deterministic (p = 0: no edge kept, p = 1: all kept)
                H = nx.Graph()
                H.add_nodes_from(G)
                if case['p'] == 1:
                    H.add_edges_from(G.edges())
                bump(res, 'est_deterministic_without_builder')
            else:
                res['inconclusive'] = 'estimate_SIR_prob_size does not build its graph through percolate_network'
                return res
        else:
            H = captured[0]
        bump(res, 'est_checked')
        und = {(u, v): 1 for u, v in H.edges()}
        und.update({(v, u): 1 for u, v in H.edges()})
        comps = perc.tarjan_scc(list(H), und)
        frac = max(len(c) for c in comps) / float(len(nodes))
        if set(H) != set(nodes) or not set(map(frozenset, H.edges())) <= set(map(frozenset, G.edges())):
            viol(res, 'estimate_SIR_prob_size|percolated_graph_on_same_nodes', {})
        elif tuple(got) != (frac, frac):
            viol(res, 'estimate_SIR_prob_size|largest_component_fraction_for_both', {'got': list(got), 'expected': frac})
        if G.number_of_edges():
            res['nontrivial'] = 'est:%s:%s' % (gen.iso_key(case), case['p'])
            res['sample'] = {'kind': 'est', 'graph': {'n': case['n'], 'edges': case['edges']}, 'p': case['p'], 'result': list(got)}
        return res
    if case.get('multi'):
        bump(res, 'multigraph_inputs')
    if kind == 'dest':
        orig, tap = capture('directed_percolate_network')
        sim.directed_percolate_network = tap
        from .. import rngprobe
        from . import c11
        try:
            with rngprobe.monitor(seed=case['seed']) as px:
                got = EoN.estimate_directed_SIR_prob_size(G, case['tau'], case['gamma'])
        except Exception as e:
            viol(res, 'estimate_directed_SIR_prob_size|exception:%s' % simcase.exc_key(e), {'err': repr(e)})
            return res
        finally:
            sim.directed_percolate_network = orig
        if len(captured) != 1:
            res['inconclusive'] = 'estimate_directed_SIR_prob_size does not build its graph through directed_percolate_network'
            return res
        H = captured[0]
        bump(res, 'dest_checked')
        if set(H) != set(nodes) or any(not G.has_edge(u, v) for u, v in H.edges()):
            viol(res, 'estimate_directed_SIR_prob_size|percolated_graph_on_same_nodes', {})
        else:
            check_pair(res, 'estimate_directed_SIR_prob_size', got, list(H), {(u, v): 1 for u, v in H.edges()})
            # "contains u->v exactly when the rule says u would transmit to v": the Markovian rule is one exponential duration per node and
            # one exponential delay per neighbour, read off the draw log (same reading as C11's builder check)
            dur, delay, bad = c11._markov_tables_from_log(G, px.log, case['tau'], case['gamma'])
            if bad:
                viol(res, 'estimate_directed_SIR_prob_size|percolated_graph_not_drawn_by_the_markovian_rule|%s' % bad[0], {'found': repr(bad[1])[:80], 'tau': case['tau'], 'gamma': case['gamma']})
            else:
                arcs = perc.kept_arcs(nodes, nbrs, dur, delay)
                bump(res, 'arcs_rule_checked', len(arcs) + 1)
                if set(H.edges()) != set(arcs):
                    viol(res, 'estimate_directed_SIR_prob_size|arc_iff_rule_says_u_transmits_to_v', {'H_edges': H.number_of_edges(), 'rule_arcs': len(arcs)})
        if G.number_of_edges():
            res['nontrivial'] = 'dest:%s:%s:%s' % (gen.iso_key(case), case['tau'], case['gamma'])
            res['sample'] = {'kind': 'dest', 'graph': {'n': case['n'], 'edges': case['edges']}, 'result': list(got)}
        return res
    if kind == 'nm':
        xi = {u: r.choice([0.1, 0.5, 0.9, 1.5]) for u in nodes}
        zeta = {u: r.choice([0.2, 0.6, 1.0, 2.0]) for u in nodes}
        rule = r.choice(['prod', 'lt', 'asym'])

        def transmission(x, z):
            if rule == 'prod':
                return x * z > 0.45
            if rule == 'lt':
                return x < z
            return x >= 0.5 and z <= 1.0
        exp = {(u, v): 1 for u in nodes for v in nbrs[u] if transmission(xi[u], zeta[v])}
        # the documented argument is 'a dict: xi[u] gives the infectiousness of u': also mappings with a default for unlisted nodes, and
        # dicts prepared for a larger population (keys that are not nodes of G)
        import collections
        form = r.choice(['dict', 'dict', 'defaultdict', 'extra_keys'])
        bump(res, 'nm_mapping_form_' + form)
        if form == 'defaultdict' and nodes:
            def dd(full):
                common = collections.Counter(full.values()).most_common(1)[0][0]
                d = collections.defaultdict(lambda c=common: c)
                d.update({u: w for u, w in full.items() if w != common})
                return d
            xi, zeta = dd(xi), dd(zeta)
        elif form == 'extra_keys':
            xi = dict(xi)
            zeta = dict(zeta)
            for extra in ('__not_a_node__', ('ghost', 1), -10 ** 6):
                xi[extra] = 1.5
                zeta[extra] = 2.0
        # the rule's answer is a truth value: a builtin bool, what a numpy comparison returns (numpy.bool_), or 1 / 0
        ans = r.choice(['bool', 'bool', 'numpy', 'int'])
        bump(res, 'nm_rule_answers_' + ans)
        rule_fn = transmission if ans == 'bool' else ((lambda x, z, _t=transmission: np.bool_(_t(x, z))) if ans == 'numpy' else (lambda x, z, _t=transmission: int(_t(x, z))))
        orig, tap = capture('nonMarkov_directed_percolate_network')
        sim.nonMarkov_directed_percolate_network = tap
        try:
            got = EoN.estimate_nonMarkov_SIR_prob_size(G, xi, zeta, rule_fn)
            Hd = EoN.nonMarkov_directed_percolate_network(G, xi, zeta, rule_fn)
        except Exception as e:
            viol(res, 'estimate_nonMarkov_SIR_prob_size|exception:%s' % simcase.exc_key(e), {'err': repr(e)})
            return res
        finally:
            sim.nonMarkov_directed_percolate_network = orig
        if not captured:
            res['inconclusive'] = 'estimate_nonMarkov_SIR_prob_size does not build its graph through nonMarkov_directed_percolate_network'
            return res
        bump(res, 'nm_checked')
        for H in (captured[0], Hd):
            bump(res, 'arcs_rule_checked', len(exp) + 1)
            if set(H) != set(nodes) or set(H.edges()) != set(exp):
                ex = [e for e in H.edges() if e not in exp][:2]
                mi = [e for e in exp if not H.has_edge(*e)][:2]
                viol(res, 'nonMarkov_directed_percolate_network|arc_iff_rule_says_u_transmits_to_v', {'rule': rule, 'extra': [[repr(a), repr(b), xi[a], zeta[b]] for a, b in ex],
                                                                                                    'missing': [[repr(a), repr(b), xi[a], zeta[b]] for a, b in mi]})
                return res
        check_pair(res, 'estimate_nonMarkov_SIR_prob_size', got, nodes, exp)
        if exp:
            res['nontrivial'] = 'nm:%s:%s' % (gen.iso_key(case), rule)
            res['sample'] = {'kind': 'nm', 'graph': {'n': case['n'], 'edges': case['edges']}, 'rule': rule, 'arcs': len(exp), 'result': list(got)}
        return res
    if kind == 'nmt':
        vals = r.choice([[0, 1, 2], [0.5, 1, 1, 2, INF], None])
        dur = {u: (r.choice(vals) if vals else r.uniform(0.1, 2)) for u in nodes}
        delay = {(u, v): (r.choice(vals) if vals else r.uniform(0, 2.5)) for u in nodes for v in nbrs[u]}
        unit = r.choice([1.0, 1.0, 1e-10, 1e-13, 1e7])      # the same rule table in another time unit (nanoseconds ... years)
        if unit != 1.0:
            dur = {u: x * unit for u, x in dur.items()}
            delay = {e: x * unit for e, x in delay.items()}
            bump(res, 'nmt_tables_in_other_time_units')
        exp = perc.kept_arcs(nodes, nbrs, dur, delay)
        orig, tap = capture('nonMarkov_directed_percolate_network_with_timing')
        sim.nonMarkov_directed_percolate_network_with_timing = tap
        try:
            got = EoN.estimate_nonMarkov_SIR_prob_size_with_timing(G, lambda u, v, a: delay[(u, v)] if a == 'a' else 1e9, lambda u, b, c: dur[u] if (b, c) == ('b', 'c') else -1.0, ('a',), ('b', 'c'))       # each rule sees its own extra arguments
        except Exception as e:
            viol(res, 'estimate_nonMarkov_SIR_prob_size_with_timing|exception:%s' % simcase.exc_key(e), {'err': repr(e)})
            return res
        finally:
            sim.nonMarkov_directed_percolate_network_with_timing = orig
        if len(captured) != 1:
            res['inconclusive'] = 'estimate_nonMarkov_SIR_prob_size_with_timing does not build its graph through the timing builder'
            return res
        H = captured[0]
        bump(res, 'nmt_checked')
        bump(res, 'arcs_rule_checked', len(exp) + 1)
        if set(H) != set(nodes) or set(H.edges()) != set(exp):
            viol(res, 'nonMarkov_directed_percolate_network_with_timing|arc_iff_delay_le_duration', {'H_arcs': H.number_of_edges(), 'expected': len(exp)})
            return res
        check_pair(res, 'estimate_nonMarkov_SIR_prob_size_with_timing', got, nodes, exp)
        if exp:
            res['nontrivial'] = 'nmt:%s' % gen.iso_key(case)
            res['sample'] = {'kind': 'nmt', 'graph': {'n': case['n'], 'edges': case['edges']}, 'arcs': len(exp), 'result': list(got)}
        return res
    return res
