"""C10 - the full-data object and the plain time series describe the same epidemic.

For every simulator: two runs under the recording RNG proxy with equal seeds, one per return mode.  Premise (monitored, not
assumed): the two draw logs are identical.  Then summary()/t()/S()/I()/R() vs arrays, summary(nodelist) vs an independent
evaluator, history well-formedness, node_status/get_statuses vs the evaluator on adversarial query times."""
import random
import numpy as np
from .. import gen, simreg, simcase, rngprobe
from ..runner import new_result, viol, bump, case_seed
from ..oracles.history import status_at, changes, summary_from_histories, merge_equal_times

PID = 'C10'
LEVEL = 'exploration'
RULE = ('cases: all 12 simulators x seeded random/boundary inputs, each run in both return modes under equal seeds (draw logs compared). '
        'Discrete-time simulators are included with p in {0,1} (deterministic rule) so that both modes consume the same draws. '
        'Query times: tmin, every change time, midpoints, +-1e-9 around changes, beyond the end.  Non-trivial = history with >=1 change; '
        'distinct = (simulator, graph iso key, #rows bucket).')
ASSUMPTIONS = ['premise of the statement (same draws in both modes) is checked on the recorded draw log; pairs failing it are counted and skipped']
BUDGET = {'quick': 150, 'thorough': 1200}
CHUNK = {'quick': 30, 'thorough': 150}
REQUIRED = ['mode_pairs_compared', 'premise_same_draws', 'queries_checked', 'subset_summaries_checked', 'accessors_rechecked_after_subset_query', 'subset_form_iterator', 'subset_form_generator', 'histories_checked'] + \
           ['pairs:' + s for s in simreg.ALL_SIMS]


def gen_cases(tier, seed):
    n = {'quick': 12000, 'thorough': 360000}[tier]
    out = []
    for k in range(n):
        cs = case_seed(seed, PID, k)
        r = random.Random(cs)
        sim = simreg.ALL_SIMS[k % len(simreg.ALL_SIMS)]
        c = simreg.random_sim_case(r, sim)
        if sim in simreg.DISCRETE:
            c['p'] = r.choice([0.0, 1.0, 1.0])
            if c['tmax'] != 'inf':
                span = int(c['tmax'] - c['tmin'])
                c['tmax'] = c['tmin'] + max(1, span)
        if sim in ('fast_nonMarkov_SIR', 'fast_nonMarkov_SIS') and c['rule']['kind'] in ('exp', 'unif') and r.random() < 0.35:
            c['rule'] = dict(c['rule'], zero_some=True)       # some nodes are infected and recover at the same instant: two changes at one time
        if sim == 'Gillespie_simple_contagion' and r.random() < 0.25:
            ks = len(c['spec']['statuses'])
            c['return_idx'] = sorted(r.sample(range(ks), r.randint(1, ks)))
        if sim == 'Gillespie_complex_contagion' and (k // len(simreg.ALL_SIMS)) % 2 == 0:
            # a user model whose transition_choice sometimes answers with the node's current status: the null event is an event of the run in
            # both descriptions (a row of the arrays, a time point of the summary)
            c['cmodel'] = 'lazy'
            c['IC'] = [c['IC'][i] if i else 1 for i in range(len(c['IC']))]
            if c.get('tmax') == 'inf':
                c['tmax'] = c['tmin'] + 4
        out.append(c)
    return out


def _run(case, full):
    cc = dict(case)
    cc['full'] = full
    call = simreg.build_call(cc)
    simcase.seed_all(case['seed'])
    with rngprobe.monitor(seed=case['seed'], copy_pop=False) as px:
        out = call.f(*call.args, **call.kw)
    return call, out, px.log


def run_case(case):
    res = new_result()
    sim = case['sim']
    try:
        call_f, full, log_f = _run(case, True)
    except Exception as e:
        cls = 'subset_return_statuses' if (sim == 'Gillespie_simple_contagion' and len(case.get('return_idx', [])) < len(case['spec']['statuses'])) else 'any'
        viol(res, '%s|full|%s|exception:%s' % (sim, cls, simcase.exc_key(e)), {'err': repr(e)})
        return res
    try:
        call_a, arrs, log_a = _run(case, False)
    except Exception as e:
        viol(res, '%s|arrays|any|exception:%s' % (sim, simcase.exc_key(e)), {'err': repr(e)})
        return res
    G = call_f.G
    nodes = list(G)
    tmin = call_f.tmin
    if call_f.model == 'SIR':
        sts = ['S', 'I', 'R']
    elif call_f.model == 'SIS':
        sts = ['S', 'I']
    else:
        sts = list(call_f.return_statuses)
    bump(res, 'pairs:' + sim)
    # ---- premise
    same = (log_f == log_a) or (sim in simreg.DISCRETE and case['p'] in (0.0, 1.0))   # deterministic rule: extra draws of the full-data mode cannot change the trajectory
    if same:
        bump(res, 'premise_same_draws')
    else:
        bump(res, 'premise_failed_pairs_skipped')
    hist = {u: (list(full.node_history(u)[0]), list(full.node_history(u)[1])) for u in nodes}
    st_t, st_D = full.summary()
    st_t = list(st_t)
    # ---- P1 arrays vs summary (step functions over time must coincide)
    if same:
        t = list(np.asarray(arrs[0]).tolist())
        cols = [list(np.asarray(a).tolist()) for a in arrs[1:]]
        T, C = merge_equal_times(t, cols)
        bump(res, 'mode_pairs_compared')
        bad = None
        if not T or T[0] != st_t[0]:
            bad = {'why': 'different start time', 'arrays_t0': T[:1], 'summary_t0': st_t[:1]}
        else:
            import bisect
            for k, tt in enumerate(st_t):
                j = bisect.bisect_right(T, tt) - 1
                row_a = [C[i][j] for i in range(len(sts))]
                row_s = [int(st_D[s][k]) for s in sts]
                if row_a != row_s:
                    bad = {'t': tt, 'arrays_row': row_a, 'summary_row': row_s}
                    break
            if bad is None:
                for j, tt in enumerate(T):
                    k = bisect.bisect_right(st_t, tt) - 1
                    row_a = [C[i][j] for i in range(len(sts))]
                    row_s = [int(st_D[s][k]) for s in sts]
                    if row_a != row_s:
                        bad = {'t': tt, 'arrays_row': row_a, 'summary_row': row_s, 'direction': 'array row not reflected in summary'}
                        break
        if bad:
            viol(res, '%s|summary_equals_arrays' % sim, bad)
        elif sim not in simreg.DISCRETE:
            # continuous time: both descriptions list the same event times (rows at one instant merged) - an event that changes no count
            # (a null event of a user model, a change between two unreported statuses) is still a row of both
            bump(res, 'time_grids_compared')
            if [float(x) for x in st_t] != [float(x) for x in T]:
                viol(res, '%s|summary_time_points_equal_arrays' % sim, {'summary_len': len(st_t), 'arrays_len': len(T), 'summary_t': st_t[:6], 'arrays_t': T[:6]})
    # ---- P2 accessors
    try:
        acc_ok = list(full.t()) == st_t
        for s, f in (('S', full.S), ('I', full.I), ('R', full.R)):
            if s in sts and s in st_D:
                acc_ok = acc_ok and list(f()) == list(st_D[s])
        if not acc_ok:
            viol(res, '%s|accessors_equal_summary' % sim, {})
    except Exception as e:
        if call_f.model != 'generic':
            viol(res, '%s|accessors|exception:%s' % (sim, type(e).__name__), {'err': repr(e)})
    # ---- independent summary over all nodes and over a subset
    r = random.Random(case['seed'] + 5)
    it, iD = summary_from_histories(hist, nodes, sts)
    if it != st_t or any([int(x) for x in st_D[s]] != iD[s] for s in sts):
        viol(res, '%s|summary_equals_history_evaluator' % sim, {'summary_t': st_t[:6], 'evaluator_t': it[:6]})
    if len(nodes) >= 2:
        sub = r.sample(nodes, r.randint(1, len(nodes) - 1))
        try:
            # "the nodes that we want to focus on": any iterable of nodes, including one-shot ones (G.neighbors(u), a generator, filter())
            form = r.choice(['list', 'tuple', 'set', 'iterator', 'generator', 'dictkeys', 'filter'])
            arg = {'list': lambda: list(sub), 'tuple': lambda: tuple(sub), 'set': lambda: set(sub), 'iterator': lambda: iter(list(sub)),
                   'generator': lambda: (x for x in sub), 'dictkeys': lambda: dict.fromkeys(sub).keys(),
                   'filter': lambda: filter(lambda x: True, list(sub))}[form]()
            bump(res, 'subset_form_' + form)
            s_t, s_D = full.summary(nodelist=arg)
            it, iD = summary_from_histories(hist, sub, sts)
            bump(res, 'subset_summaries_checked')
            # rows of the evaluator at times where nothing of the subset changes are redundant: compare as step functions
            ok = list(s_t) == it and all([int(x) for x in s_D[s]] == iD[s] for s in sts)
            if not ok:
                viol(res, '%s|subset_summary' % sim, {'subset_given_as': form, 'subset': [repr(x) for x in sub][:5], 'summary_t': list(s_t)[:6], 'evaluator_t': it[:6]})
        except Exception as e:
            viol(res, '%s|subset_summary|exception:%s' % (sim, simcase.exc_key(e)), {'err': repr(e)})
        # the object is stateful (it caches its summary): after a subset query the whole-population views must be what they were
        try:
            t2, D2 = full.summary()
            again_ok = list(t2) == st_t and all(list(D2[s]) == list(st_D[s]) for s in sts if s in st_D) and list(full.t()) == st_t
            for s, f in (('S', full.S), ('I', full.I), ('R', full.R)):
                if s in sts and s in st_D:
                    again_ok = again_ok and list(f()) == list(st_D[s])
            bump(res, 'accessors_rechecked_after_subset_query')
            if not again_ok:
                viol(res, '%s|accessors_after_subset_summary' % sim, {'t_len': len(list(full.t())), 'summary_len': len(st_t)})
        except Exception as e:
            if call_f.model != 'generic':
                viol(res, '%s|accessors_after_subset_summary|exception:%s' % (sim, type(e).__name__), {'err': repr(e)})
    # ---- P4 histories
    if call_f.model == 'SIR':
        legal = {('S', 'I'), ('I', 'R')}
    elif call_f.model == 'SIS':
        legal = {('S', 'I'), ('I', 'S')}
    elif sim == 'Gillespie_simple_contagion':
        legal = set(call_f.H.edges()) | {(a[1], c[1]) for a, c in call_f.J.edges()}
    else:
        legal = call_f.moves
    nchanges = 0
    ties_possible = sim in ('fast_nonMarkov_SIR', 'fast_nonMarkov_SIS') and (case['rule']['kind'] in ('const', 'lattice') or case['rule'].get('zero_some'))
    for u in nodes:
        ts, ss = hist[u]
        bump(res, 'histories_checked')
        if not ts or ts[0] != tmin:
            viol(res, '%s|history_starts_at_tmin' % sim, {'node': repr(u), 'history': [ts[:4], ss[:4]]})
            break
        d = [ts[k + 1] - ts[k] for k in range(len(ts) - 1)]
        if any(x < 0 for x in d) or (not ties_possible and any(x <= 0 for x in d)):
            viol(res, '%s|history_time_ordered' % sim, {'node': repr(u), 'times': ts[:6]})
            break
        ill = [(a, b) for (_, a, b) in changes(ts, ss) if (a, b) not in legal]
        if ill:
            viol(res, '%s|history_legal_moves' % sim, {'node': repr(u), 'moves': [list(map(repr, m)) for m in ill[:3]]})
            break
        nchanges += len(ts) - 1
    # ---- P5 queries
    qs = {tmin}
    allt = sorted({t for u in nodes for t in hist[u][0]})
    for a in allt:
        qs.update([a, a + 1e-9])
        if a - 1e-9 >= tmin:
            qs.add(a - 1e-9)
    for a, b in zip(allt, allt[1:]):
        qs.add((a + b) / 2)
    qs.update([allt[-1] + 1.0, allt[-1] + 1e6])
    qs = sorted(q for q in qs if q >= tmin)
    if len(qs) > 40:
        qs = r.sample(qs, 40)
    for q in qs:
        try:
            got = full.get_statuses(time=q)
        except Exception as e:
            viol(res, '%s|get_statuses|exception:%s' % (sim, type(e).__name__), {'err': repr(e), 'time': q})
            break
        bump(res, 'queries_checked')
        badn = [u for u in nodes if got[u] != status_at(hist[u][0], hist[u][1], q)]
        if badn or set(got) != set(nodes):
            u = badn[0] if badn else None
            viol(res, '%s|get_statuses_latest_change_at_or_before' % sim, {'time': q, 'node': repr(u), 'got': repr(got.get(u)), 'history': hist.get(u)})
            break
        u = r.choice(nodes)
        if full.node_status(u, q) != status_at(hist[u][0], hist[u][1], q):
            viol(res, '%s|node_status_latest_change_at_or_before' % sim, {'time': q, 'node': repr(u), 'history': hist[u]})
            break
    try:
        d0 = full.get_statuses()
        # default time = the initial time; "the status of the latest change at or before it" (a node of zero infectious period has two
        # changes at tmin)
        if any(d0[u] != status_at(hist[u][0], hist[u][1], hist[u][0][0]) for u in nodes):
            viol(res, '%s|get_statuses_default_time' % sim, {})
    except Exception as e:
        viol(res, '%s|get_statuses|exception:%s' % (sim, type(e).__name__), {'err': repr(e)})
    if nchanges:
        res['nontrivial'] = '%s:%s:%d' % (sim, gen.iso_key(case['graph']), min(nchanges, 60) // 6)
        res['sample'] = {'sim': sim, 'graph': case['graph'], 'same_draws': same, 'changes': nchanges, 'summary_rows': len(st_t), 'queries': len(qs)}
    return res
