"""C20 - helpers have exact step / moment semantics (post-condition monitors on generated inputs)."""
import bisect, random, math
from fractions import Fraction
import numpy as np
import networkx as nx
from .. import gen
from ..runner import new_result, viol, bump, setmax, case_seed

PID = 'C20'
LEVEL = 'exploration'
RULE = ('cases: seeded generators for (a) subsample on ordered observation grids with ties/repeats/report==event/'
        'reports beyond the end, 1-3 series, (b) get_time_shift on series that reach the threshold, (c) get_Pk/get_Pnk/'
        'PGF helpers/estimate_R0 on random and boundary graphs.  A case is non-trivial when the oracle answer is not '
        'constant (subsample: >=2 distinct reported values; graphs: >=2 distinct degrees or >=1 edge); distinct = distinct '
        '(kind, structural signature).')
ASSUMPTIONS = ['report_times and times are ordered (documented domain)', 'PGF evaluation points lie in (0,1]',
               'estimate_R0 is only judged on graphs with at least one edge']
REQUIRED = ['subsample_reports_just_before_an_observation', 'subsample_mixed_type_series', 'graphs_edited_in_place_between_calls', 'multigraph_inputs', 'subsample_reports_checked', 'time_shift_checked', 'pgf_points_checked', 'pnk_rows_checked', 'R0_checked',
            'subsample_rejections_checked']
BUDGET = {'quick': 120, 'thorough': 900}


def gen_cases(tier, seed):
    n = {'quick': 20000, 'thorough': 1000000}[tier]
    out = []
    for k in range(n):
        kind = ['subsample', 'subsample', 'timeshift', 'graph'][k % 4]
        out.append({'kind': kind, 'seed': case_seed(seed, PID, k)})
    return out


def _grid(r):
    style = r.choice(['int', 'float', 'ties', 'dense'])
    m = r.randint(1, 14)
    if style == 'int':
        ts = sorted(r.randint(-3, 12) for _ in range(m))
    elif style == 'float':
        ts = sorted(round(r.uniform(-2, 10), 3) for _ in range(m))
    elif style == 'ties':
        base = sorted(r.choice([0, 0.5, 1, 1.5, 2, 3]) for _ in range(m))
        ts = base
    else:
        t0 = r.choice([0, -1.5, 2])
        ts = [t0 + 0.25 * i for i in range(m)]
    return ts


def _subsample_case(case, res):
    import EoN
    r = random.Random(case['seed'])
    times = _grid(r)
    m = len(times)
    nser = r.choice([1, 2, 3])
    # value types: counts (int), fractions / ODE output (float), and plain lists mixing both (a fraction series starting at 1,
    # a running mean initialised with 0): the output must carry the observed values unchanged
    def _series():
        vt = r.choice(['int', 'int', 'float', 'mixed', 'mixed_int_first'])
        if vt == 'int':
            return [r.randint(0, 50) for _ in range(m)]
        if vt == 'float':
            return [r.choice([0.125, 0.375, 0.5, 0.75, 2.25, 7.0]) * r.randint(0, 9) for _ in range(m)]
        vals = [r.choice([r.randint(0, 5), r.randint(0, 40) / 8.0]) for _ in range(m)]
        if vt == 'mixed_int_first':
            vals[0] = r.choice([0, 1])
        bump(res, 'subsample_mixed_type_series')
        return vals
    series = [_series() for _ in range(nser)]
    # report times: mix of event times, midpoints, beyond end, repeated
    pool = list(times) + [t + 0.1 for t in times] + [times[-1] + 1, times[-1] + 7.5, times[0]]
    # report times a hair before an observation (by 3e-9, by a few parts in 1e6, by one unit in the last place): "at or before" is exact
    near = [x for t in times[1:] for x in (t - 3e-9, t - 2e-6 * max(1.0, abs(t)), np.nextafter(t, -np.inf)) if x >= times[0]]
    if near and r.random() < 0.5:
        pool = pool + [float(x) for x in near]
        bump(res, 'subsample_reports_just_before_an_observation')
    k = r.randint(1, 12)
    reports = sorted(r.choice(pool) for _ in range(k))
    bad = r.random() < 0.15
    if bad:
        reports = sorted([times[0] - r.choice([0.001, 1, 3.5])] + reports)
    as_array = r.random() < 0.5
    T = np.array(times) if as_array else list(times)
    Sr = [np.array(s) if (as_array and all(type(x) is type(s[0]) for x in s)) else list(s) for s in series]
    R = np.array(reports) if r.random() < 0.5 else list(reports)
    try:
        out = EoN.subsample(R, T, *Sr)
    except EoN.EoNError:
        bump(res, 'subsample_rejections_checked')
        if not bad:
            viol(res, 'subsample|%dseries|spurious_EoNError' % nser, {'times': times, 'reports': reports})
        return
    except Exception as e:
        viol(res, 'subsample|%dseries|exception:%s' % (nser, type(e).__name__), {'times': times, 'reports': reports, 'err': repr(e)})
        return
    if bad:
        bump(res, 'subsample_rejections_checked')
        viol(res, 'subsample|%dseries|early_report_not_rejected' % nser, {'times': times, 'reports': reports})
        return
    if nser == 1:
        out = (out,)
    if len(out) != nser:
        viol(res, 'subsample|%dseries|arity' % nser, {'got': len(out)})
        return
    distinct_vals = set()
    for s, o in zip(series, out):
        exp = [s[bisect.bisect_right(times, rt) - 1] for rt in reports]
        got = list(np.asarray(o).tolist())
        bump(res, 'subsample_reports_checked', len(exp))
        distinct_vals.update(exp)
        if got != exp:
            viol(res, 'subsample|%dseries|value_mismatch' % nser, {'times': times, 'series': s, 'reports': reports, 'got': got, 'expected': exp})
            return
    if len(distinct_vals) >= 2:
        res['nontrivial'] = 'subsample:%d:%d:%d:%s' % (nser, m, k, len(set(times)) < m)
    res['sample'] = {'kind': 'subsample', 'times': times, 'reports': reports, 'nseries': nser}


def _timeshift_case(case, res):
    import EoN
    r = random.Random(case['seed'])
    times = _grid(r)
    m = len(times)
    L = [r.choice([0, 1, 2, 3, 5, 8]) + r.choice([0, 0.5]) for _ in range(m)]
    if r.random() < 0.5:
        L = sorted(L)
    thr = r.choice(L) if r.random() < 0.7 else r.uniform(min(L) - 1, max(L))
    if max(L) < thr:
        return
    exp = next(t for t, l in zip(times, L) if l >= thr)
    try:
        got = EoN.get_time_shift(np.array(times) if r.random() < 0.5 else times, np.array(L) if r.random() < 0.5 else L, thr)
    except Exception as e:
        viol(res, 'get_time_shift|exception:%s' % type(e).__name__, {'times': times, 'L': L, 'thr': thr, 'err': repr(e)})
        return
    bump(res, 'time_shift_checked')
    if got != exp:
        viol(res, 'get_time_shift|first_reach', {'times': times, 'L': L, 'thr': thr, 'got': got, 'expected': exp})
    if exp != times[0]:
        res['nontrivial'] = 'timeshift:%d:%s' % (m, thr in L)
    res['sample'] = {'kind': 'timeshift', 'times': times, 'L': L, 'threshold': thr, 'answer': exp}


def _graph_case(case, res):
    import EoN
    r = random.Random(case['seed'])
    desc = gen.random_graph(r, 1, 30)
    desc['labels'] = r.choice(gen.LABEL_SCHEMES)
    multi = r.random() < 0.25
    if multi and desc['n'] >= 2:
        # degree-based helpers are routinely fed the raw output of nx.configuration_model: a MultiGraph with parallel edges / self-loops,
        # where the degree counts edge ends
        degs = [r.choice([1, 2, 2, 3, 4]) for _ in range(desc['n'])]
        if sum(degs) % 2:
            degs[0] += 1
        mg = nx.configuration_model(degs, seed=r.randrange(10 ** 9))
        desc = {'n': desc['n'], 'edges': sorted([sorted(e) for e in mg.edges()]), 'labels': desc['labels'], 'multi': True}
    G, lab = gen.build_graph(desc)
    if multi:
        bump(res, 'multigraph_inputs')
    if r.random() < 0.4 and G.number_of_edges() >= 1 and G.number_of_nodes() >= 3 and not multi:
        # "any history": the helpers have been called on this very graph object before, and the graph was then edited in place
        # (endpoints of edges moved: same number of nodes and edges, different degrees; sometimes a node added)
        for f in (EoN.get_Pk, EoN.get_Pnk, lambda g: EoN.estimate_R0(g, transmissibility=0.5)):
            try:
                f(G)
            except Exception:
                pass
        ops = []
        for _ in range(r.randint(1, 3)):
            u, v = r.choice(list(G.edges()))
            cand = [w for w in G if w != u and not G.has_edge(u, w)]
            if cand:
                w = r.choice(cand)
                G.remove_edge(u, v)
                G.add_edge(u, w)
                ops.append([repr(u), repr(v), repr(w)])
        if r.random() < 0.3:
            G.add_edge(list(G)[0], ('new', 'node'))
            ops.append('added a node')
        if ops:
            bump(res, 'graphs_edited_in_place_between_calls')
            desc = dict(desc, edited_in_place=ops)
    N = G.number_of_nodes()
    degs = [d for _, d in G.degree()]
    # --- get_Pk
    try:
        Pk = EoN.get_Pk(G)
    except Exception as e:
        viol(res, 'get_Pk|exception:%s' % type(e).__name__, {'graph': desc, 'err': repr(e)})
        return
    hist = {}
    for d in degs:
        hist[d] = hist.get(d, 0) + 1
    bump(res, 'pk_checked')
    if set(k for k, v in Pk.items() if v != 0) != set(hist) or any(abs(Pk[k] - hist[k] / N) > 1e-12 for k in hist):
        viol(res, 'get_Pk|histogram', {'graph': desc, 'got': dict(Pk), 'expected': {k: v / N for k, v in hist.items()}})
    if abs(sum(Pk.values()) - 1) > 1e-12:
        viol(res, 'get_Pk|sum', {'graph': desc, 'sum': sum(Pk.values())})
    # --- PGFs: exact polynomial algebra with Fractions
    fr = {k: Fraction(v, N) for k, v in hist.items()}
    k1 = sum(k * p for k, p in fr.items())
    k2 = sum(k * (k - 1) * p for k, p in fr.items())
    try:
        Pk_arg = dict(Pk)
        psi, psiP, psiPP = EoN.get_PGF(Pk_arg), EoN.get_PGFPrime(Pk_arg), EoN.get_PGFDPrime(Pk_arg)
        if r.random() < 0.5:
            # the caller goes on using its dict (one buffer refilled across a sweep of networks; pop(0) and renormalise): the functions
            # already handed out remain the generating functions of the distribution they were built from
            for k_ in list(Pk_arg):
                Pk_arg[k_] = 0.0
            Pk_arg.pop(max(Pk_arg))
            Pk_arg[0] = 0.25
            Pk_arg[9] = 0.75
            bump(res, 'pgf_evaluated_after_the_callers_dict_was_refilled')
        pts = [1.0] + [r.uniform(0.01, 1) for _ in range(4)] + [r.choice([0.5, 0.25, 1e-3])]
        for x in pts:
            e0 = sum(float(p) * x ** k for k, p in fr.items())
            e1 = sum(float(p) * k * x ** (k - 1) for k, p in fr.items() if k >= 1)
            e2 = sum(float(p) * k * (k - 1) * x ** (k - 2) for k, p in fr.items() if k >= 2)
            g0, g1, g2 = float(psi(x)), float(psiP(x)), float(psiPP(x))
            bump(res, 'pgf_points_checked')
            scale = max(1.0, abs(e2))
            if not (abs(g0 - e0) <= 1e-9 and abs(g1 - e1) <= 1e-9 * max(1, abs(e1)) and abs(g2 - e2) <= 1e-9 * scale):
                which = 'psi' if abs(g0 - e0) > 1e-9 else ('psiPrime' if abs(g1 - e1) > 1e-9 * max(1, abs(e1)) else 'psiDPrime')
                viol(res, 'PGF|%s|derivative_identity' % which, {'graph': desc, 'x': x, 'got': [g0, g1, g2], 'expected': [e0, e1, e2]})
                break
        g = [float(psi(1.0)), float(psiP(1.0)), float(psiPP(1.0))]
        if abs(g[0] - 1) > 1e-12 or abs(g[1] - float(k1)) > 1e-9 * max(1, float(k1)) or abs(g[2] - float(k2)) > 1e-9 * max(1, float(k2)):
            viol(res, 'PGF|moments_at_1', {'graph': desc, 'got': g, 'expected': [1, float(k1), float(k2)]})
    except Exception as e:
        viol(res, 'PGF|exception:%s' % type(e).__name__, {'graph': desc, 'err': repr(e)})
    # --- get_Pnk (simple graphs only: on a MultiGraph "neighbours of a degree-k node" is not what the function documents)
    try:
        if G.is_multigraph():
            raise StopIteration
        Pnk = EoN.get_Pnk(G)
        cnt = {}
        for u in G:
            for v in G.neighbors(u):
                a, b = G.degree(u), G.degree(v)
                cnt.setdefault(a, {}).setdefault(b, 0)
                cnt[a][b] += 1
        for a in hist:
            if a == 0:
                continue
            row = Pnk[a]
            bump(res, 'pnk_rows_checked')
            tot = sum(cnt[a].values())
            if abs(sum(row.values()) - 1) > 1e-9:
                viol(res, 'get_Pnk|row_sum', {'graph': desc, 'k': a, 'sum': sum(row.values())})
                break
            if any(abs(row.get(b, 0) - c / tot) > 1e-9 for b, c in cnt[a].items()) or any(v > 1e-12 and b not in cnt[a] for b, v in row.items()):
                viol(res, 'get_Pnk|row_values', {'graph': desc, 'k': a, 'got': dict(row), 'expected': {b: c / tot for b, c in cnt[a].items()}})
                break
    except StopIteration:
        pass
    except Exception as e:
        viol(res, 'get_Pnk|exception:%s' % type(e).__name__, {'graph': desc, 'err': repr(e)})
    # --- estimate_R0
    if k1 > 0:
        tau, gamma = r.choice([0.3, 1.0, 2.5]), r.choice([0.5, 1.0, 3.0])
        T = r.choice([0.1, 0.5, 1.0])
        try:
            a = EoN.estimate_R0(G, tau=tau, gamma=gamma)
            b = EoN.estimate_R0(G, transmissibility=T)
            ea = tau / (tau + gamma) * float(k2 / k1)
            eb = T * float(k2 / k1)
            bump(res, 'R0_checked', 2)
            if abs(a - ea) > 1e-9 * max(1, ea) or abs(b - eb) > 1e-9 * max(1, eb):
                viol(res, 'estimate_R0|value', {'graph': desc, 'got': [a, b], 'expected': [ea, eb]})
        except Exception as e:
            viol(res, 'estimate_R0|exception:%s' % type(e).__name__, {'graph': desc, 'err': repr(e)})
    if len(hist) >= 2 or G.number_of_edges() >= 1:
        res['nontrivial'] = 'graph:' + gen.iso_key(desc)
    res['sample'] = {'kind': 'graph', 'graph': desc, 'Pk': {str(k): v for k, v in Pk.items()}}


def run_case(case):
    res = new_result()
    {'subsample': _subsample_case, 'timeshift': _timeshift_case, 'graph': _graph_case}[case['kind']](case, res)
    return res
