"""C09 - recorded transmissions are causally valid and complete (offline checker over the returned log + histories)."""
import random
import networkx as nx
from .. import gen, simreg, simcase, specs
from ..runner import new_result, viol, bump, case_seed
from ..oracles.history import status_at, status_before, changes

PID = 'C09'
LEVEL = 'exploration'
SIMS = [s for s in simreg.ALL_SIMS if s != 'Gillespie_complex_contagion']
RULE = ('cases: the 11 simulators that record single-neighbour transmissions, return_full_data=True, seeded random/boundary inputs '
        '(undirected graphs n<=14; directed graphs for Gillespie_simple_contagion; weights; initial recovered sets; all spec families). '
        'Every entry of every returned transmission list is checked.  Non-trivial = at least one entry with a source; distinct = '
        '(simulator, graph iso key, #entries bucket).')
ASSUMPTIONS = ['continuous draws give distinct event times (ties are the subject of C11)', 'discrete-time runs use a whole number of steps']
BUDGET = {'quick': 150, 'thorough': 1200}
CHUNK = {'quick': 40, 'thorough': 200}
REQUIRED = ['entries_checked', 'induced_changes_matched', 'trees_checked'] + ['runs:' + s for s in SIMS]


def gen_cases(tier, seed):
    n = {'quick': 15400, 'thorough': 440000}[tier]
    out = []
    for k in range(n):
        cs = case_seed(seed, PID, k)
        r = random.Random(cs)
        sim = SIMS[k % len(SIMS)]
        c = simreg.random_sim_case(r, sim)
        c['full'] = True
        if sim in simreg.DISCRETE and c['tmax'] != 'inf':
            c['tmax'] = c['tmin'] + int(c['tmax'] - c['tmin']) + (1 if int(c['tmax'] - c['tmin']) == 0 else 0)
        if sim == 'Gillespie_simple_contagion' and r.random() < 0.4:
            g = dict(c['graph'])
            d = gen.random_digraph(r, 1, 9)
            g['n'], g['edges'], g['directed'] = d['n'], d['edges'], True
            g.pop('ew', None)
            g.pop('nw', None)
            if c.get('weight_form'):
                g['ew'] = {'ew_': gen.weights(r, len(g['edges']), 'nondyadic')}
                g['nw'] = {'nw_': gen.weights(r, g['n'], 'dyadic')}
            c['graph'] = g
            c.pop('prehistory', None)
            k2 = len(c['spec']['statuses'])
            c['IC'] = [r.randrange(k2) for _ in range(g['n'])]
        g0 = c['graph']
        if sim in ('Gillespie_SIS', 'Gillespie_SIR', 'fast_SIS', 'fast_SIR') and not g0.get('directed') and not g0.get('big') and g0['n'] >= 2 and r.random() < 0.2:
            # self-loops (nx.Graph(nx.configuration_model(...)) keeps them; the library's own examples run on such graphs)
            g0 = dict(g0)
            loops = [[i, i] for i in r.sample(range(g0['n']), r.randint(1, 2))]
            g0['edges'] = [list(e) for e in g0['edges']] + loops
            if g0.get('ew'):
                g0['ew'] = {a_: list(ws) + [1.0] * len(loops) for a_, ws in g0['ew'].items()}
            c['graph'] = g0
            c.pop('prehistory', None)
            c['selfloops'] = True
        if sim == 'Gillespie_simple_contagion' and r.random() < 0.4 and len(c['spec']['statuses']) >= 2:
            # only some statuses are reported (SEIR reporting S, I, R): the transmission list still has every induced change
            k2 = len(c['spec']['statuses'])
            c['return_idx'] = sorted(r.sample(range(k2), r.randint(1, k2 - 1)))
        out.append(c)
    return out


def check_log(call, sim_obj, case, res, key):
    G = call.G
    disc = call.sim in simreg.DISCRETE
    tmin = call.tmin
    try:
        trans = list(sim_obj.transmissions())
    except Exception as e:
        viol(res, '%s|transmissions_unavailable:%s' % (call.sim, type(e).__name__), {'err': repr(e)})
        return None
    hist = {u: (list(sim_obj.node_history(u)[0]), list(sim_obj.node_history(u)[1])) for u in G}
    # 1. order
    ts = [x[0] for x in trans]
    if any(ts[k] > ts[k + 1] for k in range(len(ts) - 1)):
        viol(res, '%s|time_order' % call.sim, {'times': ts[:8]})
    step = 1 if disc else 0
    matched = set()
    n_src = 0
    if call.model != 'generic':
        I0 = set(call.I0)
        none_nodes = [v for (t, u, v) in trans if u is None]
        if set(none_nodes) != I0 or len(none_nodes) != len(I0):
            viol(res, '%s|sourceless_entries_are_initial' % call.sim, {'sourceless': [repr(x) for x in none_nodes][:5], 'initial': [repr(x) for x in I0][:5]})
        inducing, frm, to = 'I', 'S', 'I'
    for (t, u, v) in trans:
        if u is None:
            if call.model == 'generic':
                viol(res, '%s|sourceless_entry' % call.sim, {'entry': [t, None, repr(v)]})
            continue
        n_src += 1
        bump(res, 'entries_checked')
        if u == v and call.model != 'generic':
            # the source is infectious and the target susceptible immediately before t: one node cannot be both
            viol(res, '%s|node_recorded_as_infecting_itself' % call.sim, {'entry': [t, repr(u), repr(v)]})
            continue
        if not G.has_edge(u, v):
            viol(res, '%s|along_edge' % call.sim, {'entry': [t, repr(u), repr(v)], 'directed': G.is_directed()})
            continue
        hu, hv = hist[u], hist[v]
        tc = t + step
        # target changes at tc
        ch = [(a, b) for (tt, a, b) in changes(*hv) if tt == tc]
        if len(ch) != 1:
            viol(res, '%s|target_changes_at_t' % call.sim, {'entry': [t, repr(u), repr(v)], 'target_history': hv})
            continue
        a, b = ch[0]
        if (v, tc) in matched:
            viol(res, '%s|duplicate_entry' % call.sim, {'entry': [t, repr(u), repr(v)]})
            continue
        matched.add((v, tc))
        if call.model != 'generic':
            if (a, b) != (frm, to):
                viol(res, '%s|target_was_susceptible' % call.sim, {'entry': [t, repr(u), repr(v)], 'move': [a, b]})
            su_at, su_before = status_at(hu[0], hu[1], t), status_before(hu[0], hu[1], t)
            if not (su_at == 'I' or (su_before == 'I' and not disc)):
                viol(res, '%s|source_infectious_at_t' % call.sim, {'entry': [t, repr(u), repr(v)], 'source_history': hu})
        else:
            su_at, su_before = status_at(hu[0], hu[1], t), status_before(hu[0], hu[1], t)
            ok = any(call.J.has_edge((s, a), (s, b)) for s in (su_at, su_before) if s is not None)
            if not ok:
                viol(res, '%s|induced_move_enabled' % call.sim, {'entry': [t, repr(u), repr(v)], 'move': [repr(a), repr(b)], 'source_status': [repr(su_before), repr(su_at)]})
    # completeness: every neighbour-induced change after tmin has exactly one entry
    for v in G:
        for (tt, a, b) in changes(*hist[v]):
            if (v, tt) in matched:
                bump(res, 'induced_changes_matched')
                continue
            if call.model != 'generic':
                if (a, b) == ('S', 'I'):
                    viol(res, '%s|infection_without_entry' % call.sim, {'node': repr(v), 't': tt})
            else:
                if not call.H.has_edge(a, b):
                    viol(res, '%s|induced_change_without_entry' % call.sim, {'node': repr(v), 't': tt, 'move': [repr(a), repr(b)]})
    # SIR: transmission tree is a forest rooted at the initially infected nodes
    if call.model == 'SIR':
        try:
            T = sim_obj.transmission_tree()
            bump(res, 'trees_checked')
            bad_in = [repr(x) for x in T if T.in_degree(x) > 1]
            roots = {x for x in T if T.in_degree(x) == 0}
            if bad_in or not nx.is_directed_acyclic_graph(T) or not roots <= set(call.I0) or any(T.in_degree(x) > 0 for x in call.I0 if x in T):
                viol(res, '%s|transmission_tree_is_rooted_forest' % call.sim, {'in_degree_gt_1': bad_in[:3], 'roots': [repr(x) for x in roots][:5], 'initial': [repr(x) for x in call.I0][:5]})
            if set(T.edges()) != {(u, v) for (t, u, v) in trans if u is not None}:
                viol(res, '%s|transmission_tree_edges' % call.sim, {})
        except Exception as e:
            viol(res, '%s|transmission_tree|exception:%s' % (call.sim, type(e).__name__), {'err': repr(e)})
    return n_src


def run_case(case):
    res = new_result()
    call = simreg.build_call(case)
    simcase.seed_all(case['seed'])
    try:
        out = call.f(*call.args, **call.kw)
    except Exception as e:
        viol(res, '%s|exception:%s' % (case['sim'], simcase.exc_key(e)), {'err': repr(e)})
        return res
    bump(res, 'runs:' + call.sim)
    if case.get('selfloops'):
        bump(res, 'runs_on_graphs_with_self_loops')
    if case.get('return_idx') is not None and case['sim'] == 'Gillespie_simple_contagion' and len(case['return_idx']) < len(case['spec']['statuses']):
        bump(res, 'runs_reporting_a_strict_subset_of_statuses')
    n_src = check_log(call, out, case, res, call.sim)
    if n_src:
        res['nontrivial'] = '%s:%s:%d' % (call.sim, gen.iso_key(case['graph']), min(n_src, 40) // 5)
        res['sample'] = {'sim': call.sim, 'graph': case['graph'], 'entries_with_source': n_src, 'first_entries': [[t, repr(u), repr(v)] for t, u, v in list(out.transmissions())[:4]]}
    return res
