"""Registry of call templates for the ODE entry points (~45), with the documented return layout of each.

A generic case: {'entry': name, 'graph': desc, 'tau','gamma','p', 'ic': 'rho'|'sets', 'rho', 'I0', 'R0', 'tmin','tmax','tcount','full', 'wm'}
layout entries: (slot name, oracle key or None, kind) where kind in {'scalar','vec_k','mat_kk','mat_si','node','pair', 'theta', ...}
"""
import numpy as np
import networkx as nx
from . import gen, simcase
from .oracles import ic_counts

SIR_GRAPH = ['SIR_homogeneous_meanfield_from_graph', 'SIR_homogeneous_pairwise_from_graph', 'SIR_heterogeneous_meanfield_from_graph',
             'SIR_heterogeneous_pairwise_from_graph', 'SIR_compact_pairwise_from_graph', 'SIR_super_compact_pairwise_from_graph',
             'SIR_effective_degree_from_graph', 'SIR_compact_effective_degree_from_graph', 'EBCM_from_graph', 'EBCM_discrete_from_graph']
SIS_GRAPH = ['SIS_homogeneous_meanfield_from_graph', 'SIS_homogeneous_pairwise_from_graph', 'SIS_heterogeneous_meanfield_from_graph',
             'SIS_heterogeneous_pairwise_from_graph', 'SIS_compact_pairwise_from_graph', 'SIS_super_compact_pairwise_from_graph',
             'SIS_effective_degree_from_graph', 'SIS_compact_effective_degree_from_graph']
RHO_ONLY = ['EBCM_pref_mix_from_graph', 'EBCM_pref_mix_discrete_from_graph']
NODE_LEVEL = ['SIS_individual_based', 'SIR_individual_based', 'SIS_individual_based_pure_IC', 'SIR_individual_based_pure_IC',
              'SIS_pair_based', 'SIR_pair_based', 'SIS_pair_based_pure_IC', 'SIR_pair_based_pure_IC']
DIRECT = ['SIS_homogeneous_meanfield', 'SIR_homogeneous_meanfield', 'SIS_homogeneous_pairwise', 'SIR_homogeneous_pairwise',
          'SIS_heterogeneous_meanfield', 'SIR_heterogeneous_meanfield', 'SIS_heterogeneous_pairwise', 'SIR_heterogeneous_pairwise',
          'SIS_compact_pairwise', 'SIR_compact_pairwise', 'SIS_super_compact_pairwise', 'SIR_super_compact_pairwise',
          'SIS_effective_degree', 'SIR_effective_degree', 'SIS_compact_effective_degree', 'SIR_compact_effective_degree',
          'EBCM', 'EBCM_discrete', 'EBCM_uniform_introduction', 'EBCM_discrete_uniform_introduction', 'EBCM_pref_mix', 'EBCM_pref_mix_discrete']
ALL = SIR_GRAPH + SIS_GRAPH + RHO_ONLY + NODE_LEVEL + DIRECT
NO_FULL = {'SIS_homogeneous_meanfield_from_graph', 'SIR_homogeneous_meanfield_from_graph', 'SIS_homogeneous_meanfield', 'SIR_homogeneous_meanfield'}
DISCRETE = {'EBCM_discrete_from_graph', 'EBCM_pref_mix_discrete_from_graph', 'EBCM_discrete', 'EBCM_discrete_uniform_introduction', 'EBCM_pref_mix_discrete'}
NO_TMIN = {'EBCM_discrete_uniform_introduction'}
HEAVY = {'SIS_pair_based', 'SIR_pair_based', 'SIS_pair_based_pure_IC', 'SIR_pair_based_pure_IC', 'SIS_effective_degree_from_graph',
         'SIR_effective_degree_from_graph', 'SIS_effective_degree', 'SIR_effective_degree', 'SIS_heterogeneous_pairwise_from_graph',
         'SIR_heterogeneous_pairwise_from_graph', 'SIS_heterogeneous_pairwise', 'SIR_heterogeneous_pairwise'}


def is_sir(name):
    return name.startswith('SIR') or name.startswith('EBCM')


def model_base(name):
    return name.replace('_from_graph', '').replace('_pure_IC', '')


# documented full-data layout after `times`:  slot -> oracle key.  None = no t=tmin oracle for that slot.
# Where a docstring's arity disagrees with its own code the layout of the sibling docstring that matches the returned tuple is used.
LAYOUT = {
    'SIS_homogeneous_pairwise': ['S', 'I', 'SI', 'SS', 'II'],
    'SIR_homogeneous_pairwise': ['S', 'I', 'R', 'SI', 'SS'],
    'SIS_heterogeneous_meanfield': ['S', 'I', 'Sk', 'Ik'],
    'SIR_heterogeneous_meanfield': ['Sk', 'Ik', 'Rk'],
    'SIS_heterogeneous_pairwise': ['S', 'I', 'SkKs', 'IkKs', 'SkIl', 'SkSl', 'IkIl'],
    'SIR_heterogeneous_pairwise': ['S', 'I', 'R', 'SkKs', 'IkKs', 'RkKs', 'SkIl', 'SkSl'],
    'SIS_compact_pairwise': ['S', 'I', 'Sk', 'Ik', 'SI', 'SS', 'II'],
    'SIR_compact_pairwise': ['Sk', 'I', 'R', 'SS', 'SI'],
    'SIS_super_compact_pairwise': ['S', 'I', 'SS', 'SI', 'II'],
    'SIR_super_compact_pairwise': ['S', 'I', 'R', 'SS', 'SI'],
    'SIS_effective_degree': ['S', 'I', 'Ssi', 'Isi'],
    'SIR_effective_degree': ['S', 'I', 'R', 'Ssi_sir'],
    'SIS_compact_effective_degree': ['S', 'I', 'Sk', 'Ik', 'SI', 'SS', 'II'],
    'SIR_compact_effective_degree': ['S', 'I', 'R', 'Skappa', 'SI'],
    'EBCM': ['S', 'I', 'R', 'theta1'],
    'EBCM_discrete': ['S', 'I', 'R', 'theta1'],
    'EBCM_uniform_introduction': ['S', 'I', 'R', 'theta1'],
    'EBCM_discrete_uniform_introduction': ['S', 'I', 'R', 'theta1'],
    'EBCM_pref_mix': ['S', 'I', 'R', 'thetadict1'],
    'EBCM_pref_mix_discrete': ['S', 'I', 'R', 'thetadict1'],
    'SIS_individual_based': ['Xs', 'Ys'],
    'SIR_individual_based': ['S', 'I', 'R', 'Xs', 'Ys', 'Zs'],
    'SIS_pair_based': ['S', 'I', 'Xs', 'Ys', 'XY', 'XX'],
    'SIR_pair_based': ['S', 'I', 'R', 'Xs', 'Ys', 'Zs', 'XY', 'XX'],
}
PLAIN = {True: ['S', 'I', 'R'], False: ['S', 'I']}


def layout(name, full):
    if not full:
        return PLAIN[is_sir(name)]
    return LAYOUT[model_base(name)]


class OdeCall(object):
    pass


def uncorrelated_Pnk(Pk):
    kave = sum(k * p for k, p in Pk.items())
    return {k1: {k2: (k2 * Pk[k2] / kave) for k2 in Pk if k2 > 0} for k1 in Pk}


def build(case):
    """-> OdeCall with .f .args .kw .ic (oracle initial condition) .N .G .lab .name"""
    import EoN
    name = case['entry']
    if case.get('prehistory') and name in SIR_GRAPH + SIS_GRAPH + RHO_ONLY + NODE_LEVEL:
        # the entry point has been called before on this very graph object, which was then edited in place
        def warmup(G0, lab0):
            f0 = getattr(EoN, name)
            a0 = [G0, case.get('p', 0.5)] if 'discrete' in name else [G0, 0.7, 1.0]
            k0 = {'tmax': 3} if 'discrete' in name else {'tmax': 1.0, 'tcount': 3}
            if name.endswith('_pure_IC'):
                a0.append([lab0(case['I0'][0])])
            elif name in NODE_LEVEL:
                k0['rho'] = 0.2
            import warnings as _w
            with _w.catch_warnings():
                _w.simplefilter('ignore')
                f0(*a0, **k0)
        G, lab = gen.build_graph_with_history(case['graph'], case['prehistory'], warmup)
    else:
        G, lab = gen.build_graph(case['graph'])
    c = OdeCall()
    c.name, c.G, c.lab = name, G, lab
    n = case['graph']['n']
    tau, gamma = case.get('tau', 1.0), case.get('gamma', 1.0)
    sir = is_sir(name)
    full = bool(case.get('full')) and name not in NO_FULL
    c.full = full
    I0 = [lab(i) for i in case.get('I0') or []]
    R0 = [lab(i) for i in case.get('R0') or []] if sir else []
    use_rho = case.get('ic', 'rho') == 'rho' or name in RHO_ONLY or name in ('EBCM_uniform_introduction', 'EBCM_discrete_uniform_introduction', 'EBCM_pref_mix', 'EBCM_pref_mix_discrete')
    if name.endswith('_pure_IC'):
        use_rho = False
    rho = case.get('rho', 0.1)
    rho_default = rho is None          # documented default of the graph wrappers: rho = 1/N
    if rho_default:
        rho = 1.0 / n
    ic = ic_counts.from_rho(G, rho) if use_rho else ic_counts.from_sets(G, I0, R0)
    c.ic, c.use_rho, c.rho, c.I0, c.R0 = ic, use_rho, rho, I0, R0
    N = ic['N']
    tk = {}
    if name in DISCRETE:
        if name not in NO_TMIN:
            tk['tmin'] = int(case.get('tmin', 0))
        tk['tmax'] = int(case.get('tmin', 0) if name not in NO_TMIN else 0) + int(case.get('tspan', 6))
        c.times = np.arange(tk.get('tmin', 0), tk['tmax'] + 1)
    else:
        tk['tmin'] = case.get('tmin', 0)
        tk['tmax'] = case.get('tmin', 0) + case.get('tspan', 5.0)
        tk['tcount'] = case.get('tcount', 21)
        c.times = np.linspace(tk['tmin'], tk['tmax'], tk['tcount'])
    kw = dict(tk)
    if full:
        kw['return_full_data'] = True
    args = []
    Pk = {k: v for k, v in EoN_get_Pk(G).items()}
    kave = sum(k * p for k, p in Pk.items())
    nodelist = None
    if name in SIR_GRAPH + SIS_GRAPH:
        args = [G, case['p']] if name == 'EBCM_discrete_from_graph' else [G, tau, gamma]
        if use_rho:
            kw['rho'] = rho
        else:
            kw['initial_infecteds'] = list(I0)
            if sir and R0:
                kw['initial_recovereds'] = list(R0)
    elif name in RHO_ONLY:
        args = [G, case['p']] if 'discrete' in name else [G, tau, gamma]
        kw['rho'] = rho
    elif name in NODE_LEVEL:
        args = [G, tau, gamma]
        if case.get('wm') in ('edge', 'both'):
            kw['transmission_weight'] = simcase.TW
        if case.get('wm') in ('node', 'both'):
            kw['recovery_weight'] = simcase.RW
        order = case.get('nodelist_perm')
        nodelist = [lab(i) for i in (order or range(n))]
        c.nodelist = nodelist
        if name.endswith('_pure_IC'):
            args.append(list(I0))
            if sir and R0:
                kw['initial_recovereds'] = list(R0)
            if order is not None or case.get('pass_nodelist'):
                kw['nodelist'] = list(nodelist)
            else:
                c.nodelist = list(G.nodes())
        else:
            if use_rho:
                kw['rho'] = rho
                if case.get('pass_nodelist') or order is not None:
                    kw['nodelist'] = list(nodelist)
                else:
                    c.nodelist = list(G.nodes())
            else:
                Y0 = np.array([1.0 if u in set(I0) else 0.0 for u in nodelist])
                kw['Y0'] = Y0
                kw['nodelist'] = list(nodelist)
                if sir and R0:
                    kw['X0'] = np.array([0.0 if (u in set(I0) or u in set(R0)) else 1.0 for u in nodelist])
                if case.get('pairs0') and 'pair_based' in name:
                    # the optional initial pair probabilities, given explicitly as what the default would be (independent nodes)
                    X0v = kw['X0'] if 'X0' in kw else 1.0 - Y0
                    which = case['pairs0']
                    c.given_pairs = {}
                    if which in (True, 'both'):
                        kw['XY0'] = np.outer(X0v, Y0)
                        kw['XX0'] = np.outer(X0v, X0v)
                    elif which == 'xy':       # each of the two is documented as separately optional; values other than the default
                        kw['XY0'] = 0.9 * np.outer(X0v, Y0)
                        c.given_pairs['XY'] = kw['XY0'].copy()
                    elif which == 'xx':
                        kw['XX0'] = 0.9 * np.outer(X0v, X0v)
                        c.given_pairs['XX'] = kw['XX0'].copy()
    else:
        # direct models fed with oracle ICs
        Ks = ic['Ks']
        if name == 'SIS_homogeneous_meanfield':
            args = [ic['S'], ic['I'], kave, tau, gamma]
        elif name == 'SIR_homogeneous_meanfield':
            args = [ic['S'], ic['I'], ic['R'], kave, tau, gamma]
        elif name == 'SIS_homogeneous_pairwise':
            args = [ic['S'], ic['I'], ic['SI'], ic['SS'], kave, tau, gamma]
        elif name == 'SIR_homogeneous_pairwise':
            args = [ic['S'], ic['I'], ic['R'], ic['SI'], ic['SS'], kave, tau, gamma]
        elif name == 'SIS_heterogeneous_meanfield':
            args = [ic['Sk'].copy(), ic['Ik'].copy(), tau, gamma]
        elif name == 'SIR_heterogeneous_meanfield':
            args = [ic['Sk'].copy(), ic['Ik'].copy(), ic['Rk'].copy(), tau, gamma]
        elif name in ('SIS_heterogeneous_pairwise', 'SIR_heterogeneous_pairwise') and case.get('dense_Ks'):
            # the documented default form Ks=None: arrays indexed by the degree itself, 0..maxk, unobserved degrees holding zeros
            m1 = len(ic['Sk'])

            def dense(M):
                D = np.zeros((m1, m1))
                for a, ka in enumerate(Ks):
                    for b, kb in enumerate(Ks):
                        D[ka, kb] = M[a, b]
                return D
            if name == 'SIS_heterogeneous_pairwise':
                args = [ic['Sk'].copy(), ic['Ik'].copy(), dense(ic['SkSl']), dense(ic['SkIl']), dense(ic['IkIl']), tau, gamma]
            else:
                args = [ic['Sk'].copy(), ic['Ik'].copy(), ic['Rk'].copy(), dense(ic['SkSl']), dense(ic['SkIl']), tau, gamma]
            c.dense_Ks = True
        elif name == 'SIS_heterogeneous_pairwise':
            args = [ic['Sk'][Ks].copy(), ic['Ik'][Ks].copy(), ic['SkSl'].copy(), ic['SkIl'].copy(), ic['IkIl'].copy(), tau, gamma]
            kw['Ks'] = np.array(Ks)
        elif name == 'SIR_heterogeneous_pairwise':
            args = [ic['Sk'][Ks].copy(), ic['Ik'][Ks].copy(), ic['Rk'][Ks].copy(), ic['SkSl'].copy(), ic['SkIl'].copy(), tau, gamma]
            kw['Ks'] = np.array(Ks)
        elif name in ('SIS_compact_pairwise', 'SIS_compact_effective_degree'):
            args = [ic['Sk'].copy(), ic['Ik'].copy(), ic['SI'], ic['SS'], ic['II'], tau, gamma]
        elif name == 'SIR_compact_pairwise':
            args = [ic['Sk'].copy(), ic['I'], ic['R'], ic['SS'], ic['SI'], tau, gamma]
        elif name == 'SIS_super_compact_pairwise':
            k2 = sum(k * k * p for k, p in Pk.items())
            k3 = sum(k ** 3 * p for k, p in Pk.items())
            args = [ic['S'], ic['I'], ic['SS'], ic['SI'], ic['II'], tau, gamma, kave, k2, k3]
        elif name == 'SIR_super_compact_pairwise':
            Sk = ic['Sk']
            args = [ic['R'], ic['SS'], ic['SI'], N, tau, gamma,
                    lambda x: sum(Sk[k] * x ** k for k in range(len(Sk))) / N,
                    lambda x: sum(k * Sk[k] * x ** (k - 1) for k in range(1, len(Sk))) / N,
                    lambda x: sum(k * (k - 1) * Sk[k] * x ** (k - 2) for k in range(2, len(Sk))) / N]
        elif name == 'SIS_effective_degree':
            args = [ic['Ssi'].copy(), ic['Isi'].copy(), tau, gamma]
        elif name == 'SIR_effective_degree':
            args = [ic['Ssi_sir'].copy(), ic['I'], ic['R'], tau, gamma]
        elif name == 'SIR_compact_effective_degree':
            args = [ic['Skappa'].copy(), ic['I'], ic['R'], ic['SI'], tau, gamma]
        elif name in ('EBCM', 'EBCM_discrete'):
            Sk = ic['Sk']
            psihat = lambda x: sum(Sk[k] * x ** k for k in range(len(Sk))) / N
            psihatP = lambda x: sum(k * Sk[k] * x ** (k - 1) for k in range(1, len(Sk))) / N
            if name == 'EBCM':
                args = [N, psihat, psihatP, tau, gamma, ic['phiS']]
            else:
                args = [N, psihat, psihatP, case['p'], ic['phiS']]
            kw['phiR0'] = ic['phiR']
            kw['R0'] = ic['R']
        elif name in ('EBCM_uniform_introduction', 'EBCM_discrete_uniform_introduction'):
            # vectorised generating functions (the EBCM code evaluates them on the whole theta array)
            psi = lambda x: sum(pk * x ** k for k, pk in Pk.items())
            psiP = lambda x: sum(k * pk * x ** (k - 1) for k, pk in Pk.items() if k >= 1)
            args = [N, psi, psiP, tau, gamma, rho] if name == 'EBCM_uniform_introduction' else [N, psi, psiP, case['p'], rho]
        elif name in ('EBCM_pref_mix', 'EBCM_pref_mix_discrete'):
            Pnk = EoN.get_Pnk(G)
            args = [N, Pk, Pnk, tau, gamma] if name == 'EBCM_pref_mix' else [N, Pk, Pnk, case['p']]
            kw['rho'] = rho
        else:
            raise ValueError(name)
    if rho_default and 'rho' in kw and 'individual_based' not in name:     # the individual-based models document rho / Y0 as required
        del kw['rho']
    # explicit initial sets are documented as 'iterable' / 'list or set' of nodes: hand them over in the container the case names
    form = case.get('ic_container', 'list')
    conv = {'list': list, 'set': set, 'tuple': tuple, 'frozenset': frozenset, 'dictkeys': lambda x: dict.fromkeys(x).keys(),
            'duplist': lambda x: list(x) + list(x)[:max(1, len(x) // 2)], 'single': None}[form]     # an iterable of nodes may name a node twice
    if form == 'single':
        # 'node or iterable of nodes: if a single node, then this node is initially infected' (the *_from_graph wrappers)
        if isinstance(kw.get('initial_infecteds'), list) and len(kw['initial_infecteds']) == 1:
            kw['initial_infecteds'] = kw['initial_infecteds'][0]
        else:
            form = 'list'
    elif form != 'list':
        for key in ('initial_infecteds', 'initial_recovereds'):
            if isinstance(kw.get(key), list):
                kw[key] = conv(kw[key])
        if name.endswith('_pure_IC') and len(args) >= 4 and isinstance(args[3], list):
            args[3] = conv(args[3])
    c.ic_container = form
    c.f = getattr(EoN, name)
    c.args, c.kw = args, kw
    c.N = N
    c.sir = sir
    return c


def EoN_get_Pk(G):
    deg = [d for _, d in G.degree()]
    n = float(len(deg))
    out = {}
    for d in deg:
        out[d] = out.get(d, 0) + 1 / n
    return out


def random_ode_case(r, name, nmax=None):
    heavy = name in HEAVY
    nmax = nmax or (7 if heavy else 14)
    # graphs for ODE models: at least one edge; bounded max degree for the effective-degree systems
    for _ in range(50):
        desc = gen.random_graph(r, 3, nmax, kinds=['gnp', 'gnp', 'path', 'cycle', 'star', 'regular', 'tree', 'config', 'grid', 'two_comp', 'isolated'])
        if len(desc['edges']) >= 2:
            break
    if 'homogeneous' in name:
        # explicit initial sets are only consistent with the homogeneous closure ([SS]+[SI] = n[S]) on regular graphs; elsewhere the
        # model equations themselves may leave [0,N], which is not a defect of the solver
        desc = gen.random_graph(r, 4, nmax, kinds=['regular', 'cycle', 'complete', 'regular'])
    desc['labels'] = r.choice(gen.LABEL_SCHEMES)
    n = desc['n']
    case = {'entry': name, 'graph': desc, 'tau': r.choice([0.0, 0.3, 0.8, 1.5]), 'gamma': r.choice([0.0, 0.5, 1.0, 2.0]), 'p': r.choice([0.0, 0.2, 0.5, 0.9]),
            'tmin': r.choice([0, 0, -2, 1.5]) if name not in DISCRETE else r.choice([0, 0, -2, 3]), 'tspan': r.choice([2.0, 5.0]) if name not in DISCRETE else r.choice([3, 6]),
            'tcount': r.choice([5, 11, 21]), 'full': r.random() < 0.5, 'seed': r.randrange(2 ** 40)}
    case['ic'] = r.choice(['rho', 'sets', 'sets'])
    case['rho'] = r.choice([0.05, 0.1, 0.3, 1.0 / n, 0.0, None])
    deg = [0] * n
    for u, v in desc['edges']:
        deg[u] += 1
        deg[v] += 1
    for _ in range(30):
        k = r.randint(1, max(1, min(3, n - 1)))
        case['I0'] = sorted(r.sample(range(n), k))
        rest = [i for i in range(n) if i not in case['I0']]
        case['R0'] = sorted(r.sample(rest, r.randint(1, min(2, len(rest) - 1)))) if (len(rest) > 1 and r.random() < 0.45) else []
        # documented domain of the degree-based models: some susceptible node has a neighbour (otherwise phi_S = SS/SX is 0/0)
        if any(deg[i] > 0 for i in range(n) if i not in case['I0'] and i not in case['R0']):
            break
    if name in NODE_LEVEL:
        m = simcase.make_markov_case(r, desc, weight_mode=r.choice(['none', 'none', 'edge', 'node', 'both']))
        g = m['graph']
        # strictly positive weights for ODE models
        for kk in ('ew', 'nw'):
            if g.get(kk):
                g[kk] = {a: [min(4.0, max(0.25, w)) if w > 0 else 0.5 for w in ws] for a, ws in g[kk].items()}   # moderate: no artificially stiff systems
        case['graph'] = g
        case['wm'] = m['wm']
        case['pass_nodelist'] = r.random() < 0.5
    if r.random() < 0.12:
        ph = gen.make_prehistory(r, case['graph'])
        if ph:
            case['prehistory'] = ph
    case['ic_container'] = r.choice(['list', 'list', 'set', 'tuple', 'frozenset', 'dictkeys', 'duplist'])
    if r.random() < 0.1 and case['ic'] == 'sets' and not name.endswith('_pure_IC'):
        case['ic_container'] = 'single'
        case['I0'] = case['I0'][:1]
    case['pairs0'] = r.choice([False, False, 'both', 'both', 'xy', 'xx'])
    case['dense_Ks'] = r.random() < 0.5
    if name in ('SIS_heterogeneous_meanfield_from_graph', 'SIR_heterogeneous_meanfield_from_graph') and r.random() < 0.35 and desc['n'] >= 4:
        # degree-class models are routinely fed the raw output of nx.configuration_model (parallel edges, self-loops): the degree counts
        # edge ends.  (Only the models whose initial condition consists of degree-class counts: pair counts on a multigraph are not defined
        # by the documentation.)
        degs = [r.choice([1, 2, 2, 3, 4]) for _ in range(desc['n'])]
        if sum(degs) % 2:
            degs[0] += 1
        mg = nx.configuration_model(degs, seed=r.randrange(10 ** 9))
        case['graph'] = {'n': desc['n'], 'edges': sorted([sorted(e) for e in mg.edges()]), 'labels': desc['labels'], 'multi': True}
        case.pop('prehistory', None)
    if desc['labels'] in gen.CONTAINER_LIKE and case['ic_container'] in ('tuple', 'frozenset'):
        case['ic_container'] = 'list'
    if case['tmin'] < 0 and r.random() < 0.35:
        case['tspan'] = -case['tmin']        # tmax == 0 exactly
    return case
