"""Shared helpers to turn JSON-able case dicts into EoN simulator calls (used by several checks)."""
import random
import numpy as np
from . import gen

TW, RW = 'tw_', 'rw_'      # attribute names used for transmission / recovery weights


def make_markov_case(r, desc, weight_mode=None, rates=None, with_R0=True, tmins=(0, 0, -3, 2.5)):
    """decorate a graph description with weights / rates / initial sets."""
    n = desc['n']
    m = len(desc['edges'])
    d = dict(desc)
    wm = weight_mode or r.choice(['none', 'none', 'edge', 'node', 'both'])
    wk_e = r.choice(['dyadic', 'nondyadic', 'wide', 'withzero', 'one'])
    wk_n = r.choice(['dyadic', 'nondyadic', 'wide', 'one', 'withzero'])       # weight 0: that individual never recovers
    if wm in ('edge', 'both'):
        d['ew'] = {TW: gen.weights(r, m, wk_e)}
    if wm in ('node', 'both'):
        d['nw'] = {RW: gen.weights(r, n, wk_n)}
    tau, gamma = rates or r.choice([(1.0, 1.0), (0.7, 1.9), (2.5, 0.3), (0.3, 2.0), (0.0, 1.0), (1.0, 0.0), (5.0, 1.0)])
    k = r.randint(1, max(1, min(n, 3)))
    I0 = r.sample(range(n), k)
    rest = [i for i in range(n) if i not in I0]
    R0 = r.sample(rest, r.randint(0, min(len(rest), 2))) if (with_R0 and r.random() < 0.4) else []
    tmin = r.choice(list(tmins))
    return {'graph': d, 'wm': wm, 'tau': tau, 'gamma': gamma, 'I0': I0, 'R0': R0, 'tmin': tmin}


def build(case):
    G, lab = gen.build_graph(case['graph'])
    tw = TW if case['wm'] in ('edge', 'both') else None
    rw = RW if case['wm'] in ('node', 'both') else None
    I0 = [lab(i) for i in case['I0']]
    R0 = [lab(i) for i in case.get('R0', [])]
    return G, lab, tw, rw, I0, R0


def index_weights(case):
    """weights in index space for the master-equation oracle."""
    d = case['graph']
    n = d['n']
    ew = {}
    ws = (d.get('ew') or {}).get(TW)
    for k, (u, v) in enumerate(d['edges']):
        w = ws[k] if (ws is not None and case['wm'] in ('edge', 'both')) else 1.0
        ew[(u, v)] = w
        ew[(v, u)] = w
    nws = (d.get('nw') or {}).get(RW)
    nw = {i: (nws[i] if (nws is not None and case['wm'] in ('node', 'both')) else 1.0) for i in range(n)}
    return ew, nw


def seed_all(seed):
    random.seed(seed)
    np.random.seed(seed % (2 ** 32))


def exc_key(e):
    """innermost EoN frame of an exception, for mechanism keys."""
    import traceback
    tb = traceback.extract_tb(e.__traceback__)
    fr = [f for f in tb if '/EoN/' in f.filename]
    where = fr[-1].name if fr else (tb[-1].name if tb else '?')
    return '%s@%s' % (type(e).__name__, where)
