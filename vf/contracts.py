"""E8 - icontract post-conditions on the real simulator functions (C04 trajectory well-formedness, C05 start row).

Conditions never raise: they record into COLLECT (so that one call can report several broken predicates) and count
their evaluations; zero evaluations => the check that relies on them is inconclusive.  The installer wraps the public
name *and* the module-global name, so wrapper -> worker calls inside EoN are checked too."""
import inspect, math
from collections import Counter
import numpy as np
import icontract

COLLECT = []          # (fname, mode, predicate, detail)
EVALS = Counter()
_installed = {}

PROFILE = {
    # name: (model, time)
    'discrete_SIR': ('SIR', 'disc'), 'basic_discrete_SIR': ('SIR', 'disc'), 'percolation_based_discrete_SIR': ('SIR', 'disc'),
    'basic_discrete_SIS': ('SIS', 'disc'),
    'fast_SIR': ('SIR', 'cont'), 'fast_nonMarkov_SIR': ('SIR', 'cont'), 'Gillespie_SIR': ('SIR', 'cont'),
    'fast_SIS': ('SIS', 'cont'), 'fast_nonMarkov_SIS': ('SIS', 'cont'), 'Gillespie_SIS': ('SIS', 'cont'),
    'Gillespie_simple_contagion': ('generic', 'cont'), 'Gillespie_complex_contagion': ('generic', 'cont'),
}

# extra context the harness can give for calls whose legality cannot be derived from the arguments alone
CONTEXT = {'positive_recovery': None, 'distinct_times': True, 'complex_moves': None}


class PostBroken(Exception):
    pass


def _rec(fname, mode, pred, detail):
    COLLECT.append((fname, mode, pred, detail))


def _series(fname, model, b, result):
    """-> (mode, t, {status: array}, statuses in order)"""
    full = bool(b.get('return_full_data'))
    if full:
        if not hasattr(result, 'summary'):
            _rec(fname, 'full', 'full_data_object_returned', {'returned_type': type(result).__name__})
            return 'full', None, None, []
        t, D = result.summary()
        sts = list(D.keys())
        return 'full', np.asarray(t), {s: np.asarray(D[s]) for s in sts}, sts
    if model == 'SIR':
        sts = ['S', 'I', 'R']
    elif model == 'SIS':
        sts = ['S', 'I']
    else:
        sts = list(b['return_statuses'])
    res = list(result)
    if len(res) != len(sts) + 1:
        _rec(fname, 'arrays', 'arity', {'returned': len(res), 'expected': len(sts) + 1})
        return 'arrays', None, None, sts
    return 'arrays', np.asarray(res[0]), {s: np.asarray(a) for s, a in zip(sts, res[1:])}, sts


def _legal_moves(fname, model, b):
    """set of (from,to) status moves a single event may make"""
    if model == 'SIR':
        return {('S', 'I'), ('I', 'R')}
    if model == 'SIS':
        return {('S', 'I'), ('I', 'S')}
    if fname == 'Gillespie_simple_contagion':
        mv = set()
        for a, c in b['spontaneous_transition_graph'].edges():
            mv.add((a, c))
        for a, c in b['nbr_induced_transition_graph'].edges():
            mv.add((a[1], c[1]))
        return mv
    return CONTEXT.get('complex_moves')


def check_trajectory(fname, b, result):
    model, time = PROFILE[fname]
    EVALS['wf:' + fname] += 1
    G = b['G']
    N = G.order()
    tmin, tmax = b['tmin'], b['tmax']
    mode, t, D, sts = _series(fname, model, b, result)
    if t is None:
        return
    R0 = b.get('initial_recovereds')
    if CONTEXT.get('R0_expected') is not None:
        hasR0 = len(CONTEXT['R0_expected']) > 0
    else:
        try:
            hasR0 = R0 is not None and not hasattr(R0, '__next__') and len(list(R0)) > 0
        except TypeError:
            hasR0 = R0 is not None
    m = mode + ('+R0' if hasR0 else '')
    L = len(t)
    if any(len(D[s]) != L for s in sts):
        _rec(fname, m, 'equal_lengths', {'len_t': L, 'lens': {str(s): len(D[s]) for s in sts}})
        return
    if L == 0:
        _rec(fname, m, 'nonempty', {})
        return
    if t[0] != tmin:
        _rec(fname, m, 'first_time_is_tmin', {'t0': float(t[0]), 'tmin': tmin})
    dt = np.diff(t)
    if np.any(dt < 0):
        k = int(np.argmax(dt < 0))
        _rec(fname, m, 'time_nondecreasing', {'index': k, 't': [float(t[k]), float(t[k + 1])]})
    if time == 'cont':
        if np.any(t[1:] >= tmax) or (t[0] >= tmax):
            _rec(fname, m, 'time_below_tmax', {'tmax': tmax, 'max_t': float(t.max())})
    else:
        span = tmax - tmin
        if span != float('inf') and float(span).is_integer() and np.any(t > tmax):
            _rec(fname, m, 'time_not_beyond_tmax', {'tmax': tmax, 'max_t': float(t.max())})
        # plain arrays have one row per step; the summary of a full-data object only has the steps at which some status changed
        # (with a user recovery rule a step can pass without any change), so there the steps are whole numbers >= 1
        whole = np.all(np.abs(dt - np.round(dt)) < 1e-9) and np.all(dt > 1 - 1e-9)
        if (mode == 'full' and not whole) or (mode != 'full' and np.any(np.abs(dt - 1) > 1e-9)):
            _rec(fname, m, 'unit_steps', {'dt': [float(x) for x in dt[:5]]})
    cols = np.array([D[s] for s in sts])
    if not np.all(cols == np.round(cols)):
        _rec(fname, m, 'integer_counts', {})
    if np.any(cols < 0):
        k = int(np.argmax((cols < 0).any(axis=0)))
        _rec(fname, m, 'nonnegative_counts', {'index': k, 'row': [float(x) for x in cols[:, k]], 't': float(t[k])})
    tot = cols.sum(axis=0)
    covers_all = model != 'generic' or CONTEXT.get('statuses_cover_all', True)
    if covers_all and np.any(tot != N):
        k = int(np.argmax(tot != N))
        _rec(fname, m, 'counts_sum_to_N', {'index': k, 'row': [float(x) for x in cols[:, k]], 'N': N, 't': float(t[k])})
    if model == 'SIR':
        if np.any(np.diff(D['S']) > 0):
            _rec(fname, m, 'S_nonincreasing', {})
        if np.any(np.diff(D['R']) < 0):
            _rec(fname, m, 'R_nondecreasing', {})
    # one legal move per row (continuous time; full-data summary rows are keyed by time, so only when times are distinct)
    if time == 'cont' and L > 1 and (mode == 'arrays' or CONTEXT.get('distinct_times', True)):
        moves = _legal_moves(fname, model, b)
        if moves is not None:
            d = np.diff(cols, axis=1)
            for k in range(d.shape[1]):
                col = d[:, k]
                nz = [(sts[i], int(col[i])) for i in range(len(sts)) if col[i] != 0]
                ok = False
                if len(nz) == 2 and sorted(x[1] for x in nz) == [-1, 1]:
                    frm = [s for s, v in nz if v == -1][0]
                    to = [s for s, v in nz if v == 1][0]
                    ok = (frm, to) in moves
                elif len(nz) == 1 and model == 'generic':
                    s, v = nz[0]     # move from/to a status that is not reported
                    ok = (v == -1 and any(a == s and c not in sts for a, c in moves)) or (v == 1 and any(c == s and a not in sts for a, c in moves))
                elif len(nz) == 0 and model == 'generic':
                    ok = any(a not in sts and c not in sts for a, c in moves) or any(a == c for a, c in moves)
                EVALS['row_moves'] += 1
                if not ok:
                    _rec(fname, m, 'one_legal_move_per_row', {'index': k + 1, 't': float(t[k + 1]), 'delta': {str(s): v for s, v in nz}})
                    break
    # extinction with unbounded horizon and positive recovery rate
    if model == 'SIR' and tmax == float('inf'):
        pos = CONTEXT.get('positive_recovery')
        if pos is None:
            if fname in ('fast_SIR', 'Gillespie_SIR'):
                rw = b.get('recovery_weight')
                pos = b['gamma'] > 0 and (rw is None or all(G.nodes[u][rw] > 0 for u in G))
            elif fname in ('basic_discrete_SIR', 'percolation_based_discrete_SIR'):
                pos = True
            elif fname == 'discrete_SIR':
                pos = b.get('test_recovery') is None
            else:
                pos = False
        if pos:
            EVALS['extinction'] += 1
            if D['I'][-1] != 0:
                _rec(fname, m, 'ends_without_infected', {'last_I': int(D['I'][-1])})


def check_start_row(fname, b, result):
    """C05: reported counts and per-node statuses at tmin equal the request (only for explicit initial sets)."""
    model, time = PROFILE[fname]
    if model == 'generic':
        return
    G = b['G']
    I0 = b.get('initial_infecteds')
    if I0 is None:
        return
    EVALS['start:' + fname] += 1
    I0 = [I0] if G.has_node(I0) else list(I0)
    R0 = b.get('initial_recovereds')
    if CONTEXT.get('R0_expected') is not None and (fname == CONTEXT.get('R0_expected_for') or hasattr(R0, '__next__')):
        R0 = list(CONTEXT['R0_expected'])       # the argument itself may be a one-shot iterator that the call has consumed
    R0 = [] if R0 is None else ([R0] if (not isinstance(R0, (list, set, range, np.ndarray)) and G.has_node(R0)) else list(R0))   # same rule as the library: a node of G is a single node
    N = G.order()
    mode, t, D, sts = _series(fname, model, b, result)
    if t is None or len(t) == 0:
        return
    m = mode + ('+R0' if R0 else '')
    want = {'S': N - len(I0) - len(R0), 'I': len(I0), 'R': len(R0)}
    got = {s: int(D[s][0]) for s in sts}
    if any(got[s] != want[s] for s in sts):
        _rec(fname, m, 'row0_counts', {'got': got, 'requested': {s: want[s] for s in sts}, 't0': float(t[0])})
    if mode == 'full':
        st = result.get_statuses(time=b['tmin'])
        bad = []
        for u in G:
            w = 'I' if u in I0 else ('R' if u in R0 else 'S')
            if st[u] != w:
                bad.append((repr(u), st[u], w))
        if bad:
            _rec(fname, m, 'statuses_at_tmin', {'node,got,requested': bad[:4]})
        # the single-node accessor must tell the same story as get_statuses
        bad1 = []
        for u in G:
            w = 'I' if u in I0 else ('R' if u in R0 else 'S')
            g1 = result.node_status(u, b['tmin'])
            if g1 != w:
                bad1.append((repr(u), g1, w))
        EVALS['node_status_at_tmin'] += 1
        if bad1 and not bad:
            _rec(fname, m, 'node_status_at_tmin', {'node,got,requested': bad1[:4]})
        for u in R0:
            ts, ss = result.node_history(u)
            if list(ss) != ['R'] or list(ts) != [b['tmin']]:
                _rec(fname, m, 'recovered_history', {'node': repr(u), 'history': [list(map(float, ts)), list(ss)]})
                break
        try:
            tr = result.transmissions()
            hit = [x for x in tr if x[2] in R0]
            if hit:
                _rec(fname, m, 'recovered_node_infected', {'entry': [repr(y) for y in hit[0]]})
        except Exception:
            pass


def _make_cond(fname, orig):
    sig = inspect.signature(orig)

    def post(result, _ARGS, _KWARGS):
        try:
            ba = sig.bind(*_ARGS, **_KWARGS)
            ba.apply_defaults()
            b = ba.arguments
            check_trajectory(fname, b, result)
            check_start_row(fname, b, result)
        except Exception as e:       # a monitor bug must never masquerade as a property violation
            COLLECT.append((fname, 'monitor', 'monitor_error', {'err': repr(e)}))
        return True
    post.__name__ = 'post_' + fname
    return post


def install(names=None):
    import EoN
    import EoN.simulation as sim
    for name in (names or PROFILE):
        if name in _installed:
            continue
        orig = getattr(sim, name)
        wrapped = icontract.ensure(_make_cond(name, orig), error=PostBroken)(orig)
        _installed[name] = orig
        setattr(sim, name, wrapped)
        setattr(EoN, name, wrapped)


def uninstall():
    import EoN
    import EoN.simulation as sim
    for name, orig in list(_installed.items()):
        setattr(sim, name, orig)
        setattr(EoN, name, orig)
        del _installed[name]


def drain():
    out = list(COLLECT)
    del COLLECT[:]
    return out
