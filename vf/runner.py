"""Process pool, verdicts, evidence, replay files, known-finding matching.

A check module provides
    PID, RULE (str), LEVEL ('exploration'), ASSUMPTIONS (list of str)
    gen_cases(tier, seed) -> list of JSON-able case dicts
    run_case(case)        -> result dict built with new_result()
    REQUIRED (optional)   -> counter names that must be > 0, else the run is INCONCLUSIVE
    finalize(agg, tier, seed) (optional) -> may append to agg['violations'] / agg['inconclusive']

Three-valued verdict:
    exit 0  held on everything explored (KNOWN-FINDING lines allowed)
    exit 1  VIOLATION property=<id> replay=<path>
    exit 2  INCONCLUSIVE property=<id> reason=...
"""
import os, sys, json, time, hashlib, signal, traceback, random
from concurrent.futures import ProcessPoolExecutor, as_completed
from concurrent.futures.process import BrokenProcessPool
import multiprocessing as mp

from . import boot

VERIF = boot.VERIF
NPROC = int(os.environ.get('VERIF_NPROC', '16'))


def case_seed(seed, pid, k):
    h = hashlib.sha256(('%s|%s|%s' % (seed, pid, k)).encode()).digest()
    return int.from_bytes(h[:6], 'big')


def new_result():
    return {'violations': [], 'nontrivial': None, 'counters': {}, 'maxes': {}, 'hists': {},
            'sets': {}, 'sample': None, 'inconclusive': None}


def viol(res, key, detail):
    res['violations'].append({'key': key, 'detail': detail})


def bump(res, name, n=1):
    res['counters'][name] = res['counters'].get(name, 0) + n


def setmax(res, name, v):
    if v > res['maxes'].get(name, float('-inf')):
        res['maxes'][name] = v


def addset(res, name, item):
    res['sets'].setdefault(name, set()).add(item)


def addhist(res, name, cell, n=1):
    h = res['hists'].setdefault(name, {})
    h[cell] = h.get(cell, 0) + n


class CaseTimeout(BaseException):
    pass


def _alarm(signum, frame):
    raise CaseTimeout()


_mod_cache = {}


def _load(pid):
    if pid not in _mod_cache:
        boot.init()
        import importlib
        _mod_cache[pid] = importlib.import_module('vf.checks.' + pid.lower())
    return _mod_cache[pid]


def _run_chunk(pid, chunk, case_timeout):
    mod = _load(pid)
    out = []
    # per-case watchdog: case_timeout seconds of this process's CPU time (robust against a loaded machine), backed by a generous
    # wall-clock limit for cases that wait on something else (subprocesses)
    signal.signal(signal.SIGALRM, _alarm)
    signal.signal(signal.SIGPROF, _alarm)
    for idx, case in chunk:
        t0 = time.time()
        try:
            signal.setitimer(signal.ITIMER_PROF, case_timeout)
            signal.setitimer(signal.ITIMER_REAL, 6 * case_timeout)
            try:
                r = mod.run_case(case)
            finally:
                signal.setitimer(signal.ITIMER_PROF, 0)
                signal.setitimer(signal.ITIMER_REAL, 0)
        except CaseTimeout:
            r = new_result()
            r['inconclusive'] = 'case_timeout'
        except Exception:
            r = new_result()
            r['harness_error'] = traceback.format_exc()
        r['sets'] = {k: sorted(v, key=repr) for k, v in r.get('sets', {}).items()}
        r['_idx'] = idx
        r['_wall'] = time.time() - t0
        out.append(r)
    return out


def _jsonable(o, keepinf=False):
    import numpy as np
    if isinstance(o, dict):
        return {str(k): _jsonable(v, keepinf) for k, v in o.items()}
    if isinstance(o, (list, tuple, set, frozenset)):
        return [_jsonable(v, keepinf) for v in o]
    if isinstance(o, np.ndarray):
        return _jsonable(o.tolist(), keepinf)
    if isinstance(o, (np.integer,)):
        return int(o)
    if isinstance(o, (np.floating,)):
        return float(o)
    if isinstance(o, float):
        if (o != o or o in (float('inf'), float('-inf'))) and not keepinf:
            return repr(o)
        return o
    if isinstance(o, (int, str, bool)) or o is None:
        return o
    return repr(o)


def _shrink(o, depth=0):
    """samples are meant to be read: a network with thousands of edges is summarised"""
    if isinstance(o, dict):
        if isinstance(o.get('edges'), list) and len(o['edges']) > 300:
            o = dict(o)
            m = len(o['edges'])
            o['edges'] = o['edges'][:5] + ['... %d edges in all' % m]
            for k in ('ew', 'nw'):
                if isinstance(o.get(k), dict):
                    o[k] = {a: (list(ws[:5]) + ['...']) for a, ws in o[k].items()}
            for k in ('prev_edges',):
                o.pop(k, None)
        return {k: (_shrink(v, depth + 1) if depth < 4 else v) for k, v in o.items()}
    if isinstance(o, list) and len(o) > 400:
        return o[:10] + ['... %d items in all' % len(o)]
    return o


def load_known():
    p = os.path.join(VERIF, 'known_findings.json')
    if not os.path.exists(p):
        return {'known': [], 'fixed': []}
    with open(p) as f:
        return json.load(f)


def run_check(pid, tier, seed, budget=None):
    mod = _load(pid)
    t_start = time.time()
    cases = mod.gen_cases(tier, seed)
    budget = budget or getattr(mod, 'BUDGET', {'quick': 150, 'thorough': 1500})[tier]
    case_timeout = getattr(mod, 'CASE_TIMEOUT', 120)
    chunk_size = getattr(mod, 'CHUNK', {'quick': 8, 'thorough': 16})[tier]
    indexed = list(enumerate(cases))
    order = getattr(mod, 'ORDERED', False)
    if not order:
        random.Random(seed).shuffle(indexed)
    chunks = [indexed[i:i + chunk_size] for i in range(0, len(indexed), chunk_size)]

    agg = {'violations': [], 'counters': {}, 'maxes': {}, 'hists': {}, 'sets': {}, 'nontrivial': set(),
           'samples': [], 'inconclusive': [], 'harness_errors': [], 'evaluations': 0, 'skipped_for_time': 0,
           'case_timeouts': 0}

    def merge(r):
        agg['evaluations'] += 1
        case = cases[r['_idx']]
        for v in r['violations']:
            v = dict(v)
            v['case'] = case
            agg['violations'].append(v)
        for k, n in r['counters'].items():
            agg['counters'][k] = agg['counters'].get(k, 0) + n
        for k, x in r['maxes'].items():
            if x > agg['maxes'].get(k, float('-inf')):
                agg['maxes'][k] = x
        for name, h in r['hists'].items():
            H = agg['hists'].setdefault(name, {})
            for c, n in h.items():
                H[c] = H.get(c, 0) + n
        for name, s in r['sets'].items():
            S = agg['sets'].setdefault(name, set())
            for it in s:
                S.add(it if not isinstance(it, list) else repr(it))
        if r['nontrivial'] is not None:
            agg['nontrivial'].add(r['nontrivial'] if isinstance(r['nontrivial'], str) else repr(r['nontrivial']))
        if r['sample'] is not None and len(agg['samples']) < 5:
            agg['samples'].append(_shrink(r['sample']))
        if r['inconclusive']:
            if r['inconclusive'] == 'case_timeout':
                agg['case_timeouts'] += 1
                agg['timeout_cases'] = agg.get('timeout_cases', []) + [case]
            else:
                agg['inconclusive'].append(r['inconclusive'])
        if r.get('harness_error'):
            agg['harness_errors'].append({'case': case, 'tb': r['harness_error']})

    nproc = min(NPROC, max(1, len(chunks)))
    ctx = mp.get_context('fork')
    deadline = t_start + budget
    if nproc == 1 or os.environ.get('VERIF_SERIAL'):
        for ch in chunks:
            if time.time() > deadline:
                agg['skipped_for_time'] += len(ch)
                continue
            for r in _run_chunk(pid, ch, case_timeout):
                merge(r)
    else:
        try:
            with ProcessPoolExecutor(nproc, mp_context=ctx) as ex:
                pending = set()
                it = iter(chunks)
                exhausted = False
                while True:
                    while not exhausted and len(pending) < nproc * 2:
                        if time.time() > deadline:
                            rest = list(it)
                            agg['skipped_for_time'] += sum(len(c) for c in rest)
                            exhausted = True
                            break
                        try:
                            ch = next(it)
                        except StopIteration:
                            exhausted = True
                            break
                        pending.add(ex.submit(_run_chunk, pid, ch, case_timeout))
                    if not pending:
                        break
                    done = next(as_completed(pending))
                    pending.discard(done)
                    for r in done.result():
                        merge(r)
        except BrokenProcessPool:
            agg['inconclusive'].append('worker process died')

    if hasattr(mod, 'finalize'):
        mod.finalize(agg, tier, seed)
    return _report(mod, pid, tier, seed, agg, time.time() - t_start, len(cases))


def _report(mod, pid, tier, seed, agg, wall, ncases):
    known = load_known()
    known_keys = {(k['property'], k['key']): k for k in known.get('known', [])}
    by_key = {}
    for v in agg['violations']:
        by_key.setdefault(v['key'], []).append(v)
    RDIR = os.environ.get('VERIF_REPLAY_DIR') or os.path.join(VERIF, 'replays')
    os.makedirs(RDIR, exist_ok=True)
    new_viol = 0
    known_matched = {}
    lines = []
    for key in sorted(by_key):
        vs = by_key[key]
        if (pid, key) in known_keys:
            known_matched[key] = len(vs)
            lines.append('KNOWN-FINDING: property=%s key=%s n=%d %s' % (pid, key, len(vs), known_keys[(pid, key)].get('what', '')))
            continue
        new_viol += len(vs)
        h = hashlib.sha1(key.encode()).hexdigest()[:10]
        path = os.path.join(RDIR, '%s-%s.json' % (pid, h))
        with open(path, 'w') as f:
            json.dump(_jsonable({'property': pid, 'key': key, 'count': len(vs), 'case': vs[0]['case'],
                                 'detail': vs[0]['detail'], 'seed': seed, 'tier': tier}, keepinf=True), f, indent=1)
        lines.append('VIOLATION property=%s replay=%s key=%s n=%d detail=%s' % (pid, path, key, len(vs), json.dumps(_jsonable(vs[0]['detail']))[:600]))

    inconc = list(agg['inconclusive'])
    for name in getattr(mod, 'REQUIRED', []):
        if agg['counters'].get(name, 0) <= 0:
            inconc.append('monitor %s observed nothing' % name)
    if agg['harness_errors']:
        inconc.append('harness error in %d case(s): %s' % (len(agg['harness_errors']), agg['harness_errors'][0]['tb'].strip().splitlines()[-1]))
        sys.stderr.write(agg['harness_errors'][0]['tb'])
        sys.stderr.write('case: %s\n' % json.dumps(_jsonable(agg['harness_errors'][0]['case']))[:2000])
    if agg['case_timeouts']:
        # an abandoned case is a case that was not explored (like the ones skipped for the time budget): it is reported in the evidence;
        # the verdict becomes inconclusive only when more than a sliver of the workload was lost this way
        sys.stderr.write('watchdog: %d case(s) abandoned; first: %s\n' % (agg['case_timeouts'], json.dumps(_jsonable(agg['timeout_cases'][0]))[:2000]))
        if agg['case_timeouts'] > max(3, 0.02 * max(1, agg['evaluations'])):
            inconc.append('%d case(s) hit the per-case watchdog' % agg['case_timeouts'])
    if agg['evaluations'] == 0:
        inconc.append('no case was evaluated')
    min_nt = getattr(mod, 'MIN_NONTRIVIAL', 2)
    if len(agg['nontrivial']) < min_nt:
        inconc.append('only %d distinct non-trivial cases' % len(agg['nontrivial']))

    cov = {
        'evaluations': agg['evaluations'],
        'distinct_nontrivial': len(agg['nontrivial']),
        'rule': mod.RULE,
        'samples': agg['samples'] or ['(none)'],
        'cases_generated': ncases,
        'skipped_for_time': agg['skipped_for_time'],
        'cases_abandoned_by_watchdog': agg['case_timeouts'],
        'monitor_counters': dict(sorted(agg['counters'].items())),
        'monitor_maxima': {k: agg['maxes'][k] for k in sorted(agg['maxes'])},
        'distinct_sets': {k: len(v) for k, v in sorted(agg['sets'].items())},
        'known_findings_matched': known_matched,
        'inconclusive_reasons': inconc,
        'exhaustive': bool(agg.get('exhaustive', False)),
    }
    if agg.get('extra'):
        cov.update(agg['extra'])
    ev = {
        'property_id': pid, 'tier': tier, 'seed': int(seed), 'level': getattr(mod, 'LEVEL', 'exploration'),
        'coverage': _jsonable(cov),
        'assumptions': getattr(mod, 'ASSUMPTIONS', []),
        'wall_s': round(wall, 2),
        'violations': new_viol,
    }
    EDIR = os.environ.get('VERIF_EVIDENCE_DIR') or os.path.join(VERIF, 'evidence')
    os.makedirs(EDIR, exist_ok=True)
    with open(os.path.join(EDIR, pid + '.json'), 'w') as f:
        json.dump(ev, f, indent=1, sort_keys=True)
        f.write('\n')

    for ln in lines:
        print(ln)
    summ = '%s tier=%s seed=%s cases=%d/%d nontrivial=%d wall=%.1fs counters=%s' % (
        pid, tier, seed, agg['evaluations'], ncases, len(agg['nontrivial']), wall,
        json.dumps(_jsonable(dict(sorted(agg['counters'].items()))))[:1500])
    print(summ)
    if new_viol:
        return 1
    if inconc:
        print('INCONCLUSIVE property=%s reason=%s' % (pid, '; '.join(inconc)))
        return 2
    print('HELD property=%s on %d executions (%d distinct non-trivial)' % (pid, agg['evaluations'], len(agg['nontrivial'])))
    return 0


def replay(pid, path):
    mod = _load(pid)
    with open(path) as f:
        rec = json.load(f)
    case = rec['case']
    r = mod.run_case(case)
    print(json.dumps(_jsonable({'case': case, 'violations': r['violations'], 'counters': r['counters']}), indent=1))
    return 1 if r['violations'] else 0
