"""E2 - step-law monitor for the Markovian SIR / SIS simulators (shared by C01, C02, C16).

The draw log of one run (rngprobe) is parsed into steps and every step is compared with the law the CTMC demands in
the state reconstructed from the *returned* full-data object."""
import math


class ParseError(Exception):
    pass


class SelectionAbandoned(ParseError):
    """a weighted selection ended with a rejected proposal: no candidate was accepted through the monitored generator"""
    def __init__(self, props, nxt):
        ParseError.__init__(self, 'selection ended after %d rejected proposals without accepting one (next draw: %r)' % (len(props), nxt))
        self.props = props


class Cur(object):
    def __init__(self, log):
        self.log = [e for e in log if e[0] != 'opaque']
        self.i = 0

    def peek(self):
        return self.log[self.i] if self.i < len(self.log) else None

    def next(self, kind):
        e = self.peek()
        if e is None or e[0] != kind:
            raise ParseError('expected %s at log[%d], found %r' % (kind, self.i, e))
        self.i += 1
        return e

    def pos(self):
        # position in the *unfiltered* log is what decisions carry; we never filter in driven mode (no opaque there)
        return self.i

    def done(self):
        return self.i >= len(self.log)


class DirectPop(tuple):
    """population of a direct categorical draw (random.choices); .direct maps candidate -> probability the draw gave it"""
    direct = None


def parse_choose(cur, weighted):
    """returns (population, proposals[(candidate, thr, accepted, logpos_choice, logpos_cmp)], chosen)"""
    props = []
    e0 = cur.peek()
    if e0 is not None and e0[0] == 'choices':
        p0 = cur.pos()
        cur.next('choices')
        pop = DirectPop(e0[1])
        pop.direct = {}
        for x, p in zip(e0[1], e0[2]):
            pop.direct[x] = pop.direct.get(x, 0.0) + p
        c = e0[1][e0[3]]
        return pop, [(c, None, True, p0, None)], c
    while True:
        p0 = cur.pos()
        if props and not cur.done() and cur.peek()[0] != 'choice':
            raise SelectionAbandoned(props, cur.peek())
        e = cur.next('choice')
        pop = e[1]
        c = pop[e[2]]
        if not weighted:
            props.append((c, None, True, p0, None))
            return pop, props, c
        if not cur.done() and cur.peek()[0] != 'uniform':
            # returned without an accept test: accepted unconditionally (e.g. a shortcut when every candidate carries the maximum weight)
            props.append((c, 1.0, True, p0, None))
            return pop, props, c
        cur.next('uniform')
        p1 = cur.pos()
        m = cur.next('cmp')
        props.append((c, m[2], m[3], p0, p1))
        if m[3]:
            return pop, props, c


def close(a, b, rel=1e-9, abs_=1e-12):
    return abs(a - b) <= abs_ + rel * max(abs(a), abs(b))


def check_selection(pop, props, expected, weighted, fails, tag, counters, weight_scale=1.0):
    """expected: dict candidate -> weight (all structurally enabled candidates).  Checks candidate set and, in the
    weighted case, that accept thresholds are w/M for one common M >= max w."""
    counters['selections_checked'] = counters.get('selections_checked', 0) + 1
    if len(set(pop)) != len(pop):
        fails.append((tag + 'candidate_set', {'why': 'duplicate candidates', 'population': list(pop)}))
        return
    if set(pop) != set(expected):
        # zero-weight candidates may legitimately be absent
        missing = [c for c in expected if c not in set(pop) and expected[c] > 0]
        extra = [c for c in pop if c not in expected]
        if missing or extra:
            fails.append((tag + 'candidate_set', {'missing': missing, 'extra': extra, 'population': list(pop)}))
            return
    direct = getattr(pop, 'direct', None)
    if direct is not None:
        # one categorical draw instead of propose/accept: its probabilities must be weight/sum (1/n when unweighted)
        counters['direct_draws_checked'] = counters.get('direct_draws_checked', 0) + 1
        sw = sum((expected[c] if weighted else 1.0) for c in pop)
        for c in pop:
            want = ((expected[c] if weighted else 1.0) / sw) if sw > 0 else None
            if want is None or not close(direct[c], want, 1e-9, 1e-12):
                fails.append((tag + 'accept_threshold', {'why': 'direct draw not proportional to weight', 'candidate': c, 'P_drawn': direct[c], 'weight_over_sum': want}))
                return
        return
    if not weighted:
        return
    Ms = []
    maxw = max([expected[c] for c in pop] + [0.0])
    for c, thr, acc, _, _ in props:
        w = expected[c]
        counters['thresholds_checked'] = counters.get('thresholds_checked', 0) + 1
        if w == 0:
            if thr > 0:
                fails.append((tag + 'accept_threshold', {'why': 'zero-weight candidate selectable', 'candidate': c, 'thr': thr}))
                return
            continue
        if thr <= 0:
            fails.append((tag + 'accept_threshold', {'why': 'positive-weight candidate never accepted', 'candidate': c, 'w': w, 'thr': thr}))
            return
        Ms.append(w / thr)
    if Ms:
        M = Ms[0]
        if any(not close(m, M, 1e-9, 0) for m in Ms):
            fails.append((tag + 'accept_threshold', {'why': 'accept thresholds not proportional to weight', 'implied_bounds': Ms[:6]}))
        elif M < maxw * (1 - 1e-9):
            fails.append((tag + 'accept_threshold', {'why': 'rejection bound below the maximum weight (heaviest under-selected)', 'bound': M, 'max_weight': maxw}))


def history_events(sim, nodes, tmin):
    ev = []
    for v in nodes:
        ts, ss = sim.node_history(v)
        for k in range(1, len(ts)):
            ev.append((ts[k], v, ss[k - 1], ss[k]))
    ev.sort(key=lambda e: e[0])
    return ev


def e2_gillespie(model, G, tau, gamma, tw, rw, I0, R0, tmin, tmax, log, sim, fails, counters, annot=None, states=None):
    """model 'SIR'|'SIS'.  fails: list of (predicate, detail).  annot: dict logpos -> state/phase key (for E3).
    states: set collecting visited (status tuple) keys."""
    from .oracles.ctmc import sir_sis_law
    nodes = list(G.nodes())
    nbrs = {u: list(G.neighbors(u)) for u in nodes}
    ew = (lambda u, v: G.adj[u][v][tw]) if tw is not None else (lambda u, v: 1.0)
    nw = (lambda u: G.nodes[u][rw]) if rw is not None else (lambda u: 1.0)
    status = {u: 'S' for u in nodes}
    for u in I0:
        status[u] = 'I'
    for u in (R0 or []):
        status[u] = 'R'
    events = history_events(sim, nodes, tmin)
    ei = 0
    cur = Cur(log)
    t = tmin
    maxrate = 0.0

    def key():
        return tuple(status[u] for u in nodes)

    def clock():
        nonlocal t, maxrate
        rec, trans = sir_sis_law(nodes, nbrs, status, tau, gamma, ew, nw)
        lam = sum(rec.values()) + sum(trans.values())
        maxrate = max(maxrate, lam)
        e = cur.peek()
        tol = 1e-9 * lam + 1e-12 * maxrate
        counters['clock_draws_checked'] = counters.get('clock_draws_checked', 0) + 1
        if lam > tol or (e is not None and e[0] == 'expo'):
            if e is None or e[0] != 'expo':
                fails.append(('clock_rate', {'why': 'no exponential clock draw although total rate %r > 0' % lam, 'state': key()}))
                return None, None, None
            cur.next('expo')
            if abs(e[1] - lam) > tol:
                fails.append(('clock_rate', {'state': key(), 'used': e[1], 'chain': lam}))
                return None, None, None
            if lam <= tol:
                counters['residue_clock_draws'] = counters.get('residue_clock_draws', 0) + 1
            t = t + e[2]
        else:
            t = float('inf')
        return rec, trans, lam

    rec, trans, lam = clock()
    if rec is None:
        return
    nsteps = 0
    while True:
        infected = [u for u in nodes if status[u] == 'I']
        if not infected or not (t < tmax):
            break
        if states is not None:
            states.add(key())
        if lam <= 1e-9 * lam + 1e-12 * maxrate:
            # code keeps stepping on floating-point residue of its running totals although the chain has stopped
            fails.append(('termination', {'why': 'step taken although the chain has total rate 0 (float residue of the running total)', 'state': key(), 't': t}))
            return
        # --- type decision
        cur.next('uniform')
        p_type = cur.pos()
        m = cur.next('cmp')
        rtot, ttot = sum(rec.values()), sum(trans.values())
        counters['type_tests_checked'] = counters.get('type_tests_checked', 0) + 1
        if abs(m[2] - rtot / lam) > 1e-9:
            fails.append(('type_prob', {'state': key(), 'used': m[2], 'chain': rtot / lam}))
            return
        if annot is not None:
            annot[p_type] = (key(), 'type')
        if m[3]:
            weighted = rw is not None
            expected = {u: nw(u) for u in rec}
            pop, props, chosen = parse_choose(cur, weighted)
            check_selection(pop, props, expected, weighted, fails, 'recovery_', counters)
            kind = ('rec', chosen)
        else:
            weighted = tw is not None
            expected = {(u, v): ew(u, v) for (u, v) in trans}
            pop, props, chosen = parse_choose(cur, weighted)
            check_selection(pop, props, expected, weighted, fails, 'transmission_', counters)
            kind = ('inf', chosen)
        if fails:
            return
        if annot is not None:
            for c, thr, acc, p0, p1 in props:
                annot[p0] = (key(), kind[0], 'choice')
                if p1 is not None:
                    annot[p1] = (key(), kind[0], 'accept', c)
        # --- effect
        if ei >= len(events):
            fails.append(('effect', {'why': 'step drawn but no event reported', 'state': key(), 'step': kind, 't': t}))
            return
        et, ev, old, new = events[ei]
        ei += 1
        if kind[0] == 'rec':
            want = (t, chosen, 'I', 'R' if model == 'SIR' else 'S')
        else:
            want = (t, chosen[1], 'S', 'I')
        counters['effects_checked'] = counters.get('effects_checked', 0) + 1
        if (et, ev, old, new) != want:
            fails.append(('effect', {'reported': [et, ev, old, new], 'drawn': list(want), 'state': key()}))
            return
        status[want[1]] = want[3]
        nsteps += 1
        rec, trans, lam = clock()
        if rec is None:
            return
    counters['steps_law_checked'] = counters.get('steps_law_checked', 0) + nsteps
    # --- termination
    if ei < len(events):
        fails.append(('termination', {'why': 'events reported beyond the last drawn step', 'extra': [list(e) for e in events[ei:ei + 3]]}))
    elif not cur.done():
        fails.append(('termination', {'why': 'random draws after the run should have stopped', 'next': cur.peek(), 'state': key(), 't': t}))
    else:
        counters['terminations_checked'] = counters.get('terminations_checked', 0) + 1
    return nsteps


def e2_fast_sir(G, tau, gamma, tw, rw, I0, R0, tmin, tmax, log, sim, fails, counters):
    """fast_SIR: (a) every draw carries the parameter the chain prescribes in the state reconstructed from the output,
    (b) the returned infection / recovery times and infectors are the first-passage percolation of those very draws."""
    nodes = list(G.nodes())
    ew = (lambda u, v: G.adj[u][v][tw]) if tw is not None else (lambda u, v: 1.0)
    nw = (lambda u: G.nodes[u][rw]) if rw is not None else (lambda u: 1.0)
    pathA = (tw is not None) or (tau * gamma == 0)
    status = {u: 'S' for u in nodes}
    for u in (R0 or []):
        status[u] = 'R'
    cur = Cur(log)
    trans = list(sim.transmissions())
    inf_time, dur, src_of, delays = {}, {}, {}, {}
    last_t = -float('inf')
    for (t, src, v) in trans:
        if t < last_t:
            fails.append(('transmission_order', {'t': t, 'previous': last_t}))
            return
        last_t = t
        if status[v] != 'S':
            fails.append(('effect', {'why': 'infection of a non-susceptible node reported', 'node': v, 'status': status[v]}))
            return
        status[v] = 'I'
        susn = [x for x in G.neighbors(v) if status[x] == 'S']
        inf_time[v], src_of[v] = t, src
        rr = gamma * nw(v)
        if pathA:
            if rr > 0:
                e = cur.next('expo')
                counters['rate_params_checked'] = counters.get('rate_params_checked', 0) + 1
                if not close(e[1], rr, 1e-9, 0):
                    fails.append(('recovery_rate', {'node': v, 'used': e[1], 'chain': rr}))
                    return
                d = e[2]
            else:
                d = float('inf')
            dur[v] = d
            for x in susn:
                r = tau * ew(v, x)
                if r > 0:
                    e = cur.next('expo')
                    counters['rate_params_checked'] = counters.get('rate_params_checked', 0) + 1
                    if not close(e[1], r, 1e-9, 0):
                        fails.append(('transmission_rate', {'edge': (v, x), 'used': e[1], 'chain': r}))
                        return
                    delays[(v, x)] = e[2]
                else:
                    delays[(v, x)] = float('inf')
        elif rr <= 0:
            # a node of recovery weight 0 never recovers: no duration draw, one exponential delay per susceptible neighbour
            dur[v] = float('inf')
            counters['zero_recovery_rate_nodes'] = counters.get('zero_recovery_rate_nodes', 0) + 1
            for x in susn:
                e = cur.next('expo')
                counters['rate_params_checked'] = counters.get('rate_params_checked', 0) + 1
                if not close(e[1], tau, 1e-9, 0):
                    fails.append(('transmission_rate', {'edge': (v, x), 'used': e[1], 'chain': tau}))
                    return
                delays[(v, x)] = e[2]
        else:
            e = cur.next('expo')
            counters['rate_params_checked'] = counters.get('rate_params_checked', 0) + 1
            if not close(e[1], rr, 1e-9, 0):
                fails.append(('recovery_rate', {'node': v, 'used': e[1], 'chain': rr}))
                return
            d = e[2]
            dur[v] = d
            b = cur.next('binom')
            counters['binomials_checked'] = counters.get('binomials_checked', 0) + 1
            p_chain = 1 - math.exp(-tau * d)
            if b[1] != len(susn) or abs(b[2] - p_chain) > 1e-12 + 1e-9 * p_chain:
                fails.append(('binomial_law', {'node': v, 'used': [b[1], b[2]], 'chain': [len(susn), p_chain]}))
                return
            s = cur.next('sample')
            if set(s[1]) != set(susn) or len(s[1]) != len(susn) or s[2] != b[3] or len(set(s[3])) != len(s[3]):
                fails.append(('recipient_sample', {'node': v, 'population': list(s[1]), 'susceptible_neighbours': susn, 'k': s[2], 'binomial': b[3]}))
                return
            for x in s[3]:
                e = cur.next('expo')
                counters['rate_params_checked'] = counters.get('rate_params_checked', 0) + 1
                if not close(e[1], tau, 1e-9, 0):
                    fails.append(('transmission_rate', {'edge': (v, x), 'used': e[1], 'chain': tau}))
                    return
                delays[(v, x)] = None   # folded value unknown a priori: must lie in [0, d) and equal e[2] modulo d
                delays[(v, x)] = ('fold', e[2])
    if not cur.done():
        fails.append(('termination', {'why': 'random draws not attributable to any reported infection', 'next': cur.peek()}))
        return
    # ---- percolation consistency on the recorded draws
    def arrival(u, x):
        dl = delays[(u, x)]
        if isinstance(dl, tuple):
            val, d = dl[1], dur[u]
            dl = val - math.floor(val / d) * d if d < float('inf') else val
            if not (0 <= dl < d):
                return None
        if dl > dur[u]:
            return float('inf')
        return inf_time[u] + dl
    into = {}
    for (u, x) in delays:
        a = arrival(u, x)
        if a is None:
            fails.append(('truncated_delay', {'edge': (u, x), 'duration': dur[u]}))
            return
        into.setdefault(x, []).append((a, u))
    for v in nodes:
        cands = [(a, u) for (a, u) in into.get(v, []) if a < tmax]
        best = min([a for a, _ in cands]) if cands else float('inf')
        counters['percolation_nodes_checked'] = counters.get('percolation_nodes_checked', 0) + 1
        if v in inf_time:
            if src_of[v] is None:
                if inf_time[v] != tmin:
                    fails.append(('percolation_time', {'node': v, 'why': 'initial infection not at tmin', 't': inf_time[v]}))
                    return
                continue
            if not close(best, inf_time[v], 1e-9, 1e-12):
                fails.append(('percolation_time', {'node': v, 'reported': inf_time[v], 'first_passage': best}))
                return
            ok_src = [u for a, u in cands if close(a, inf_time[v], 1e-9, 1e-12)]
            if src_of[v] not in ok_src:
                fails.append(('percolation_infector', {'node': v, 'reported': src_of[v], 'admissible': ok_src}))
                return
        else:
            if status[v] == 'S' and best < float('inf'):
                fails.append(('percolation_time', {'node': v, 'why': 'never infected although a transmission arrives', 'first_passage': best}))
                return
    # recoveries
    for v in inf_time:
        ts, ss = sim.node_history(v)
        rt = inf_time[v] + dur[v]
        rep = [t for t, s in zip(ts, ss) if s == 'R']
        counters['recoveries_checked'] = counters.get('recoveries_checked', 0) + 1
        if rt < tmax:
            if len(rep) != 1 or not close(rep[0], rt, 1e-12, 0):
                fails.append(('recovery_time', {'node': v, 'reported': rep, 'drawn': rt}))
                return
        elif rep:
            fails.append(('recovery_time', {'node': v, 'why': 'recovery at or after tmax reported', 'reported': rep, 'tmax': tmax}))
            return
    counters['fast_runs_checked'] = counters.get('fast_runs_checked', 0) + 1


# ------------------------------------------------------------------------------------------------ fast_SIS
def make_logging_queue(base, log):
    """E4: subclass of the real myQueue that appends its traffic to the draw log (black-box w.r.t. the heap)."""
    def ident(function, args):
        name = function.__name__
        if 'trans' in name:
            return name, args[1], args[2]
        return name, args[0], None

    class LoggingQueue(base):
        def add(self, time, function, args=()):
            name, a, b = ident(function, args)

            def wrapper(t, *wargs):
                log.append(('qpop', t, name, a, b))
                return function(t, *wargs)
            wrapper.__name__ = name
            before = len(self)
            base.add(self, time, wrapper, args)
            log.append(('qadd', time, name, a, b, len(self) > before))
    return LoggingQueue


def e2_fast_sis(G, tau, gamma, tw, rw, I0, tmin, tmax, log, sim, fails, counters):
    """fast_SIS: every exponential draw carries the chain's rate for the node / ordered pair it is attributed to; the
    next transmission of a pair is scheduled exactly when the chain allows one (strictly inside the source's infectious
    period, after the target's current period), never twice, never forgotten; infections happen iff the target is
    susceptible when the event fires; the output is exactly the popped events."""
    nodes = list(G.nodes())
    ew = (lambda u, v: G.adj[u][v][tw]) if tw is not None else (lambda u, v: 1.0)
    nw = (lambda u: G.nodes[u][rw]) if rw is not None else (lambda u: 1.0)
    status = {u: 'S' for u in nodes}
    R = {u: tmin - 1 for u in nodes}
    pending = set()
    cur = Cur(log)
    INF = float('inf')

    def bumpc(k, n=1):
        counters[k] = counters.get(k, 0) + n

    def expect_qadd(time, name_part, a, b, why):
        e = cur.peek()
        if e is None or e[0] != 'qadd' or name_part not in e[2] or e[3] != a or e[4] != b:
            fails.append(('scheduling_incomplete', {'why': why, 'expected': [time, name_part, a, b], 'found': e}))
            return False
        cur.next('qadd')
        if not close(e[1], time, 1e-12, 0) or not e[5]:
            fails.append(('scheduling_time', {'why': why, 'expected_time': time, 'found': e}))
            return False
        return True

    def attempt(u, v, now):
        rate = tau * ew(u, v)
        bumpc('sis_attempts_checked')
        e = cur.peek()
        unexpected_add = (e is not None and e[0] == 'qadd' and 'trans' in e[2] and e[3] == u and e[4] == v)
        if not (R[v] < R[u]) or rate == 0:
            if unexpected_add:
                fails.append(('scheduling_time', {'why': 'transmission scheduled although none can occur before the source recovers', 'pair': (u, v), 'found': e}))
                return False
            return True
        if e is None or e[0] != 'expo':
            fails.append(('scheduling_incomplete', {'why': 'no transmission delay drawn for an infectious-source pair whose target can still become susceptible',
                                                    'pair': (u, v), 'now': now, 'found': e}))
            return False
        cur.next('expo')
        bumpc('rate_params_checked')
        if not close(e[1], rate, 1e-9, 0):
            fails.append(('transmission_rate', {'pair': (u, v), 'used': e[1], 'chain': rate}))
            return False
        T = now + e[2]
        if T < R[v]:
            # the drawn time falls inside the target's current infectious period.  Three samplings of the next *useful* contact are exact
            # (memorylessness) and are all accepted; which one the code uses is read off the entries that follow:
            #   (a) re-draw from the target's recovery:      second Exp, T = R[v] + d2          (what the code does today)
            #   (c) shift the one draw to the recovery:      T = R[v] + d1
            #   (b) schedule the wasted contact as it is:    T = now + d1  (it fires on an infected target and re-schedules itself)
            def consistent(Tc, skip):
                nxt = cur.log[cur.i + skip] if cur.i + skip < len(cur.log) else None
                is_add = nxt is not None and nxt[0] == 'qadd' and 'trans' in nxt[2] and nxt[3] == u and nxt[4] == v
                if Tc < R[u] and Tc < tmax:
                    return is_add and close(nxt[1], Tc, 1e-12, 0)
                return not is_add
            e2 = cur.peek()
            if e2 is not None and e2[0] == 'expo' and close(e2[1], rate, 1e-9, 0) and consistent(R[v] + e2[2], 1):
                cur.next('expo')
                bumpc('rate_params_checked')
                bumpc('sis_redraws_seen')
                T = R[v] + e2[2]
            elif consistent(R[v] + e[2], 0):
                bumpc('sis_shifted_draws_seen')
                T = R[v] + e[2]
            elif consistent(T, 0):
                bumpc('sis_wasted_contacts_scheduled')
            else:
                fails.append(('scheduling_incomplete', {'why': 'drawn time falls inside the target\'s infectious period and the next useful contact was neither re-drawn, shifted nor scheduled',
                                                        'pair': (u, v), 'T': T, 'target_recovers': R[v], 'source_recovers': R[u], 'found': e2}))
                return False
        if T < R[u] and T < tmax:
            if (u, v) in pending:
                fails.append(('double_pending', {'pair': (u, v)}))
                return False
            if not expect_qadd(T, 'trans', u, v, 'next transmission of the pair'):
                return False
            pending.add((u, v))
        else:
            e3 = cur.peek()
            if e3 is not None and e3[0] == 'qadd' and 'trans' in e3[2] and e3[3] == u and e3[4] == v:
                fails.append(('scheduling_time', {'why': 'transmission scheduled at or after the source recovery / tmax', 'pair': (u, v), 'T': T, 'source_recovers': R[u], 'found': e3}))
                return False
        return True

    for u in I0:
        if not expect_qadd(tmin, 'trans', None, u, 'initial infection'):
            return
        pending.add((None, u))
    inf_events, rec_events = [], []
    last = -INF
    while not cur.done():
        e = cur.peek()
        if e[0] != 'qpop':
            raise ParseError('expected qpop at %d, found %r' % (cur.i, e))
        cur.next('qpop')
        t = e[1]
        bumpc('sis_pops_checked')
        if t < last:
            fails.append(('queue_order', {'t': t, 'previous': last}))
            return
        last = t
        if 'rec' in e[2]:
            u = e[3]
            if status[u] != 'I' or not close(R[u], t, 1e-12, 0):
                fails.append(('recovery_time', {'node': u, 'status': status[u], 'popped': t, 'drawn': R[u]}))
                return
            status[u] = 'S'
            rec_events.append((t, u))
            continue
        src, tgt = e[3], e[4]
        if (src, tgt) not in pending:
            fails.append(('queue_order', {'why': 'popped transmission was never scheduled', 'pair': (src, tgt)}))
            return
        pending.discard((src, tgt))
        if src is not None and not (status[src] == 'I' and t < R[src]):
            fails.append(('scheduling_time', {'why': 'transmission fires outside the source\'s infectious period', 'pair': (src, tgt), 't': t, 'source_recovers': R[src]}))
            return
        if status[tgt] == 'S':
            status[tgt] = 'I'
            inf_events.append((t, src, tgt))
            rr = gamma * nw(tgt)
            if rr > 0:
                e1 = cur.peek()
                if e1 is None or e1[0] != 'expo':
                    fails.append(('scheduling_incomplete', {'why': 'no recovery time drawn for a new infection', 'node': tgt, 'found': e1}))
                    return
                cur.next('expo')
                bumpc('rate_params_checked')
                if not close(e1[1], rr, 1e-9, 0):
                    fails.append(('recovery_rate', {'node': tgt, 'used': e1[1], 'chain': rr}))
                    return
                R[tgt] = t + e1[2]
            else:
                R[tgt] = INF
            if R[tgt] < tmax:
                if not expect_qadd(R[tgt], 'rec', tgt, None, 'recovery of the new infection'):
                    return
            for v in G.neighbors(tgt):
                if v == tgt:
                    continue
                if not attempt(tgt, v, t):
                    return
        else:
            bumpc('sis_wasted_transmissions_seen')
        if src is not None:
            if not attempt(src, tgt, t):
                return
    # output == popped events
    trans = [tuple(x) for x in sim.transmissions()]
    if trans != inf_events:
        fails.append(('effect', {'why': 'reported transmissions differ from the infections that fired', 'reported': trans[:4], 'fired': inf_events[:4]}))
        return
    for u in nodes:
        ts, ss = sim.node_history(u)
        exp_t, exp_s = [], []
        evs = sorted([(t, 'I') for (t, s, v) in inf_events if v == u] + [(t, 'S') for (t, v) in rec_events if v == u])
        got = [(a, b) for a, b in zip(ts, ss)]
        if not evs or evs[0][0] != tmin:
            evs = [(tmin, 'S')] + evs
        if got != evs:
            fails.append(('effect', {'why': 'node history differs from fired events', 'node': u, 'reported': got[:5], 'fired': evs[:5]}))
            return
    counters['fast_runs_checked'] = counters.get('fast_runs_checked', 0) + 1
    return len(inf_events) + len(rec_events)
