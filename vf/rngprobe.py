"""E1 / E3 - interposition on the random source of EoN.simulation.

Record mode : draws are delegated to real generators (distribution untouched) and logged with their parameters.
Driven mode : a Driver answers every decision point from a script (exact branch probabilities are recorded).

random.random() returns an *affine probe*: a float subclass carrying (cell, a, b) with value a*u+b; + - * / by
constants return probes; comparisons record the implied threshold on u before returning an ordinary bool.
"""
import random as _random
import itertools, math
import numpy as np


class SelectionStarved(Exception):
    """bounded progress: one weighted selection saw more consecutive rejections than any rejection bound that is not stale by orders of
    magnitude can produce (with an exact bound the expected number of proposals is at most the number of candidates)"""
    def __init__(self, n):
        Exception.__init__(self, '%d consecutive rejected proposals' % n)
        self.n = n


class DepthExceeded(Exception):
    pass


class Cell(object):
    __slots__ = ('id', 'u', 'lo', 'hi', 'opaque')

    def __init__(self, id, u):
        self.id = id
        self.u = u
        self.lo = 0.0
        self.hi = 1.0
        self.opaque = False


class Probe(float):
    """value = a*u + b for the uniform draw u held in cell."""
    def __new__(cls, val, proxy, cell, a, b):
        o = float.__new__(cls, val)
        o._p = proxy
        o._c = cell
        o._a = a
        o._b = b
        return o

    # ---- affine arithmetic
    def _mk(self, a, b):
        return Probe(a * self._c.u + b, self._p, self._c, a, b)

    def _const(self, other):
        return (not isinstance(other, Probe)) and isinstance(other, (int, float, np.floating, np.integer))

    def __add__(self, o):
        if self._const(o):
            return self._mk(self._a, self._b + float(o))
        return self._opaque('add', o)
    __radd__ = __add__

    def __sub__(self, o):
        if self._const(o):
            return self._mk(self._a, self._b - float(o))
        return self._opaque('sub', o)

    def __rsub__(self, o):
        if self._const(o):
            return self._mk(-self._a, float(o) - self._b)
        return self._opaque('rsub', o)

    def __mul__(self, o):
        if self._const(o):
            return self._mk(self._a * float(o), self._b * float(o))
        return self._opaque('mul', o)
    __rmul__ = __mul__

    def __truediv__(self, o):
        if self._const(o) and float(o) != 0:
            return self._mk(self._a / float(o), self._b / float(o))
        return self._opaque('div', o)

    def __neg__(self):
        return self._mk(-self._a, -self._b)

    def __pos__(self):
        return self

    # non-affine uses: mark opaque and fall back to plain float behaviour
    def _fallback(name):
        def f(self, *args):
            self._c.opaque = True
            self._p.log.append(('opaque', self._c.id, name))
            self._p.n_opaque += 1
            return getattr(float, name)(float(self), *[float(a) if isinstance(a, Probe) else a for a in args])
        return f

    for _n in ('__pow__', '__rpow__', '__floordiv__', '__rfloordiv__', '__mod__', '__rmod__', '__rtruediv__',
               '__int__', '__trunc__', '__floor__', '__ceil__', '__round__', '__abs__', '__divmod__', '__rdivmod__'):
        locals()[_n] = _fallback(_n)
    del _n

    def _opaque(self, name, o=None):  # binary op with a non-constant operand
        self._c.opaque = True
        self._p.log.append(('opaque', self._c.id, name))
        self._p.n_opaque += 1
        fn = {'add': float.__add__, 'sub': float.__sub__, 'rsub': float.__rsub__, 'mul': float.__mul__, 'div': float.__truediv__}[name]
        return fn(float(self), float(o))

    # ---- comparisons: record threshold on u
    def _cmp(self, other, op):
        if isinstance(other, Probe) or not isinstance(other, (int, float, np.floating, np.integer)):
            self._c.opaque = True
            self._p.log.append(('opaque', self._c.id, 'cmp'))
            self._p.n_opaque += 1
            return getattr(float, op)(float(self), float(other))
        x = float(other)
        a, b = self._a, self._b
        if a == 0:
            return getattr(float, op)(b, x)
        thr = (x - b) / a
        # event "value < x" (or <=)  <=>  u < thr if a>0 ;  u > thr if a<0
        want_less = op in ('__lt__', '__le__')
        u_less = want_less if a > 0 else (not want_less)   # the python result is True  <=>  (u < thr) == u_less
        lt = self._p._decide_lt(self._c, thr)               # outcome of "u < thr"
        return lt if u_less else (not lt)

    def __lt__(self, o):
        return self._cmp(o, '__lt__')

    def __le__(self, o):
        return self._cmp(o, '__le__')

    def __gt__(self, o):
        return self._cmp(o, '__gt__')

    def __ge__(self, o):
        return self._cmp(o, '__ge__')

    __hash__ = float.__hash__


class Driver(object):
    """answers decision points from a script; beyond the script: first option (highest listed)."""
    def __init__(self, script=(), max_decisions=2000, expo_value=0.5):
        self.script = list(script)
        self.decisions = []      # list of dict(kind, probs, chosen, info)
        self.max_decisions = max_decisions
        self.expo_value = expo_value

    stop_after = None      # abort the run this many decisions after the script is exhausted (partial runs for state steering)

    def decide(self, kind, probs, info=None):
        i = len(self.decisions)
        if i >= self.max_decisions or (self.stop_after is not None and i >= len(self.script) + self.stop_after):
            raise DepthExceeded()
        if i < len(self.script):
            c = self.script[i]
            if c >= len(probs):
                raise DepthExceeded('script does not fit: option %d of %d' % (c, len(probs)))
        else:
            c = 0
        self.decisions.append({'kind': kind, 'probs': list(probs), 'chosen': c, 'info': info})
        return c

    def prob(self):
        p = 1.0
        for d in self.decisions:
            p *= d['probs'][d['chosen']]
        return p


class RejectDriver(Driver):
    """keeps proposing one candidate whose accept test is a genuine decision and rejects it K times in a row (a path of positive
    probability), then accepts; every other decision takes its first option."""
    def __init__(self, K, abort_after=12):
        Driver.__init__(self, (), max_decisions=6 * K + 2000)
        self.K = K
        self.j = 0
        self.rejections = 0
        self.after_choice = False
        self.n = 0
        self.done_at = None
        self.abort_after = abort_after

    def decide(self, kind, probs, info=None):
        self.n += 1
        if self.n > self.max_decisions or (self.abort_after is not None and self.done_at is not None and self.n > self.done_at + self.abort_after):
            raise DepthExceeded()
        self.decisions.append(None)
        if kind == 'choice':
            self.after_choice = True
            if self.rejections == 0:
                self.j += 1          # still looking for a candidate that can be rejected
            return self.j % len(probs)
        if kind == 'cmp' and self.after_choice:
            self.after_choice = False
            if self.rejections < self.K:
                self.rejections += 1
                return 1
            if self.done_at is None:
                self.done_at = self.n
            return 0
        self.after_choice = False
        return 0


class RngProxy(object):
    """stands in for the module object `random` inside EoN.simulation."""
    def __init__(self, seed=0, driver=None, copy_pop=True):
        self._r = _random.Random(seed)
        self._np = np.random.RandomState(seed % (2 ** 32))
        self.driver = driver
        self.log = []
        self.n_opaque = 0
        self.n_other = 0
        self.n_dust = 0
        self._ticks = 0
        self.min_prob = 1e-12
        self.starve_after = None      # seeded mode only: raise SelectionStarved after this many consecutive rejections
        self._rejected_in_a_row = 0
        self._cells = 0
        self.copy_pop = copy_pop

    def _tick(self):
        # partial runs for state steering: abort once the script is used up and `stop_after` further draws of any kind were made
        d = self.driver
        if d is not None and d.stop_after is not None and len(d.decisions) >= len(d.script):
            self._ticks += 1
            if self._ticks > 4 * d.stop_after:
                raise DepthExceeded()

    # --- uniform
    def random(self):
        self._tick()
        u = self._r.random() if self.driver is None else 0.5
        c = Cell(self._cells, u)
        self._cells += 1
        self.log.append(('uniform', c.id, u))
        return Probe(u, self, c, 1.0, 0.0)

    def _decide_lt(self, cell, thr):
        if self.driver is None:
            out = cell.u < thr
            if self.starve_after is not None:
                self._rejected_in_a_row = 0 if out else self._rejected_in_a_row + 1
                if self._rejected_in_a_row > self.starve_after:
                    raise SelectionStarved(self._rejected_in_a_row)
        else:
            lo, hi = cell.lo, cell.hi
            if thr <= lo:
                out = False
            elif thr >= hi:
                out = True
            else:
                p = (thr - lo) / (hi - lo)
                if p < self.min_prob or p > 1 - self.min_prob:
                    # floating-point dust (e.g. residue 1e-17 of a running total): not a branch of the process
                    self.n_dust += 1
                    c = 1 if p < self.min_prob else 0
                else:
                        c = self.driver.decide('cmp', [p, 1 - p], {'thr': thr, 'cell': cell.id, 'logpos': len(self.log)})
                out = (c == 0)
            if out:
                cell.hi = min(cell.hi, thr)
            else:
                cell.lo = max(cell.lo, thr)
        self.log.append(('cmp', cell.id, thr, out))
        return out

    # --- exponential
    def expovariate(self, lambd):
        self._tick()
        if self.driver is None:
            v = self._r.expovariate(lambd)
        else:
            if lambd == 0:
                raise ZeroDivisionError('float division by zero')
            ev = self.driver.expo_value
            v = ev(lambd, len(self.log)) if callable(ev) else ev
        self.log.append(('expo', float(lambd), v))
        return v

    # --- choice
    def choice(self, seq):
        n = len(seq)
        if n == 0:
            raise IndexError('Cannot choose from an empty sequence')
        if self.driver is None:
            i = self._r.randrange(n)
        elif n == 1:
            i = 0
        else:
            i = self.driver.decide('choice', [1.0 / n] * n, {'n': n, 'logpos': len(self.log)})
        self.log.append(('choice', seq if self.copy_pop == 'ref' else (tuple(seq) if self.copy_pop else n), i))
        return seq[i]

    def choices(self, population, weights=None, *, cum_weights=None, k=1):
        """a direct categorical draw is a first-class event: the monitors read the law off the log entry"""
        pop = list(population)
        n = len(pop)
        if cum_weights is not None:
            if weights is not None:
                raise TypeError('Cannot specify both weights and cumulative weights')
            cw = list(cum_weights)
            w = [cw[0]] + [cw[j] - cw[j - 1] for j in range(1, len(cw))] if cw else []
        elif weights is None:
            w = [1.0] * n
        else:
            w = [float(x) for x in weights]
        if len(w) != n:
            raise ValueError('The number of weights does not match the population')
        if n == 0:
            raise IndexError('Cannot choose from an empty population')
        total = math.fsum(w)
        if not total > 0:
            raise ValueError('Total of weights must be greater than zero')
        probs = tuple(x / total for x in w)
        res = []
        for _ in range(k):
            self._tick()
            idx = [j for j in range(n) if probs[j] > 0]
            if self.driver is None:
                i = self._r.choices(range(n), weights=w)[0]
            elif len(idx) == 1:
                i = idx[0]
            else:
                c = self.driver.decide('choices', [probs[j] for j in idx], {'n': n, 'logpos': len(self.log)})
                i = idx[c]
            self.log.append(('choices', tuple(pop) if self.copy_pop else n, probs, i))
            res.append(pop[i])
        return res

    def sample(self, population, k):
        pop = list(population)
        if self.driver is None:
            res = self._r.sample(pop, k)
        else:
            n = len(pop)
            cnt = math.perm(n, k) if 0 <= k <= n else 0
            if cnt == 0:
                raise ValueError('Sample larger than population or is negative')
            if cnt == 1:
                res = pop[:k]
            elif cnt <= 720:
                opts = list(itertools.permutations(range(n), k))
                c = self.driver.decide('sample', [1.0 / cnt] * cnt, {'n': n, 'k': k, 'logpos': len(self.log)})
                res = [pop[j] for j in opts[c]]
            else:
                raise DepthExceeded('sample space too large')
        self.log.append(('sample', tuple(pop), k, tuple(res)))
        return res

    def binomial(self, n, p, size=None):
        if size is not None:
            self.n_other += 1
            return self._np.binomial(n, p, size)
        if self.driver is None:
            k = int(self._np.binomial(n, p))
        else:
            pmf = [math.comb(n, j) * p ** j * (1 - p) ** (n - j) for j in range(n + 1)]
            idx = [j for j in range(n + 1) if pmf[j] > 0]
            if len(idx) == 1:
                k = idx[0]
            else:
                c = self.driver.decide('binom', [pmf[j] for j in idx], {'n': n, 'p': p, 'logpos': len(self.log)})
                k = idx[c]
        self.log.append(('binom', int(n), float(p), k))
        return k

    def seed(self, *a, **k):
        self.n_other += 1
        self.log.append(('seed',))

    def __getattr__(self, name):
        # anything else (uniform, gauss, shuffle, Random, SystemRandom ...) is delegated and counted
        self.n_other += 1
        self.log.append(('other', name))
        return getattr(self._r, name)


class monitor(object):
    """context manager: EoN.simulation.random -> proxy ; numpy.random.binomial -> proxy.binomial"""
    def __init__(self, seed=0, driver=None, copy_pop=True, modules=None):
        self.proxy = RngProxy(seed, driver, copy_pop)
        self.modules = modules

    def __enter__(self):
        import EoN.simulation as sim
        self._mods = self.modules or [sim]
        self._saved = [(m, m.random) for m in self._mods]
        for m in self._mods:
            m.random = self.proxy
        self._binom = np.random.binomial
        np.random.binomial = self.proxy.binomial
        return self.proxy

    def __exit__(self, *exc):
        for m, r in self._saved:
            m.random = r
        np.random.binomial = self._binom
        return False


# ------------------------------------------------------------------ E3 explorer
def explore(run, expand_key=None, max_runs=20000, max_decisions=2000, expo_value=0.5):
    """run(driver) -> output.  Depth-first exploration of the decision tree of the random source.
    expand_key(out, driver, i) -> hashable or None; alternatives at decision i are explored iff the key is None
    (always) or has not been seen.  Yields (script, driver, out) for every completed run."""
    stack = [[]]
    seen = set()
    nruns = 0
    while stack:
        if nruns >= max_runs:
            raise DepthExceeded('max_runs')
        script = stack.pop()
        d = Driver(script, max_decisions=max_decisions, expo_value=expo_value)
        out = run(d)
        nruns += 1
        for i in range(len(script), len(d.decisions)):
            dec = d.decisions[i]
            if len(dec['probs']) <= 1:
                continue
            if expand_key is not None:
                key = expand_key(out, d, i)
                if key is not None:
                    if key in seen:
                        continue
                    seen.add(key)
            prefix = [x['chosen'] for x in d.decisions[:i]]
            for alt in range(len(dec['probs'])):
                if alt != dec['chosen'] and dec['probs'][alt] > 0:
                    stack.append(prefix + [alt])
        yield script, d, out
