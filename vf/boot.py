"""Path set-up: the package under test is imported from $VERIF_REPO (default /repo), from the
current working tree, in every process.  Third-party harness deps live in /verif/.deps."""
import os, sys, subprocess, fcntl

VERIF = os.path.dirname(os.path.dirname(os.path.abspath(__file__)))
REPO = os.environ.get('VERIF_REPO', '/repo')
DEPS = os.path.join(VERIF, '.deps')
_done = False


def _ensure_deps():
    if os.path.isdir(os.path.join(DEPS, 'icontract')):
        return
    os.makedirs(DEPS, exist_ok=True)
    with open(os.path.join(VERIF, '.deps.lock'), 'w') as lk:
        fcntl.flock(lk, fcntl.LOCK_EX)
        if not os.path.isdir(os.path.join(DEPS, 'icontract')):
            subprocess.run([sys.executable, '-m', 'pip', 'install', '-q', '--no-index', '--find-links',
                            '/opt/veriftools/wheels', '--target', DEPS, 'icontract'],
                           stdout=subprocess.DEVNULL, stderr=subprocess.DEVNULL, check=False)


def init():
    global _done
    if _done:
        return
    os.environ.setdefault('MPLBACKEND', 'Agg')
    _ensure_deps()
    for p in (DEPS, REPO):
        if p in sys.path:
            sys.path.remove(p)
    sys.path.insert(0, DEPS)
    sys.path.insert(0, REPO)
    import warnings
    warnings.filterwarnings('ignore')
    import EoN  # noqa
    got = os.path.realpath(os.path.dirname(os.path.dirname(EoN.__file__)))
    if got != os.path.realpath(REPO):
        raise RuntimeError('EoN imported from %s, expected %s' % (got, REPO))
    _done = True
