import os, sys, argparse


def main():
    ap = argparse.ArgumentParser()
    ap.add_argument('pid')
    ap.add_argument('--tier', default=os.environ.get('VERIF_TIER', 'quick'), choices=['quick', 'thorough'])
    ap.add_argument('--seed', type=int, default=int(os.environ.get('VERIF_SEED', '0') or 0))
    ap.add_argument('--replay')
    ap.add_argument('--budget', type=float)
    a = ap.parse_args()
    from . import boot
    boot.init()
    from . import runner
    if a.replay:
        sys.exit(runner.replay(a.pid.upper(), a.replay))
    sys.exit(runner.run_check(a.pid.upper(), a.tier, a.seed, a.budget))


if __name__ == '__main__':
    main()
