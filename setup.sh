#!/bin/sh
# setup_cmd: offline install of icontract (+deps) beside the harness; sanity import of the repo package.
set -e
cd "$(dirname "$0")"
if [ ! -d .deps/icontract ]; then
  /venv/bin/pip install -q --no-index --find-links /opt/veriftools/wheels --target .deps icontract >/dev/null 2>&1 || \
  /venv/bin/pip install --no-index --find-links /opt/veriftools/wheels --target .deps icontract
fi
mkdir -p evidence replays
MPLBACKEND=Agg /venv/bin/python -c "import sys; sys.path.insert(0,'.'); from vf import boot; boot.init(); import EoN, icontract; print('setup ok', EoN.__file__, icontract.__version__)"
